"""debug CLI: python3-vt -m engines.mirsym.cli dump.json entry-substring"""
import collections
import sys
import time

from .interp import Interp
from .program import Program


def main():
    prog = Program(sys.argv[1])
    pat = sys.argv[2] if len(sys.argv) > 2 else ""
    for name in sorted(prog.entries):
        if pat not in name:
            continue
        fn = prog.fns[prog.entries[name]]
        if fn["body"]["argc"] != 0:
            continue
        it = Interp(prog)
        t0 = time.time()
        done = it.explore(name)
        c = collections.Counter((s.outcome, (s.detail or "")[:300]) for s in done)
        print("==", name, "paths", len(done), "%.1fs" % (time.time() - t0), dict(it.stats))
        for (o, d), n in c.most_common():
            print("   ", n, o, d)
        nv = sum(len(s.violations) for s in done)
        print("    violations:", nv)
        for s in done:
            for v in s.violations[:2]:
                print("      ", v)


if __name__ == "__main__":
    main()
