"""Loaded MIR dump + type/layout helpers."""
import json


class Program:
    def __init__(self, path):
        with open(path) as fh:
            d = json.load(fh)
        self.types = d["types"]
        self.fns = d["fns"]
        self.entries = d["entries"]
        self.allocs = d["allocs"]
        self.statics = d["statics"]
        self.vtables = d["vtables"]
        self.notes = d.get("notes", [])
        self._fat = {}
        self._scalar = {}
        for i, t in enumerate(self.types):
            t["id"] = i

    # ---- types -------------------------------------------------------------------------
    def ty(self, tid):
        return self.types[tid]

    def size(self, tid):
        s = self.types[tid].get("size")
        if s is None:
            raise Unsupported("size of unsized type %s" % self.types[tid].get("name"))
        return s

    def align(self, tid):
        return self.types[tid].get("align") or 1

    def kind(self, tid):
        return self.types[tid]["k"]

    def pointee(self, tid):
        t = self.types[tid]
        k = t["k"]
        if k in ("ref", "ptr"):
            return t["pointee"]
        if k == "adt" and t.get("is_box"):
            return t["targs"][0]
        return None

    def is_unsized(self, tid):
        t = self.types[tid]
        k = t["k"]
        if k in ("slice", "str", "dyn"):
            return True
        if k == "adt" and t.get("size") is None:
            return True
        return False

    def is_fat_ptr(self, tid):
        r = self._fat.get(tid)
        if r is None:
            p = self.pointee(tid)
            r = p is not None and self.is_unsized(p) and self.types[tid].get("size") == 16
            self._fat[tid] = r
        return r

    def is_signed(self, tid):
        t = self.types[tid]
        return t["k"] == "int" and t["signed"]

    def field_offset(self, tid, idx, variant=None):
        t = self.types[tid]
        lay = t.get("layout")
        if lay is None:
            raise Unsupported("no layout for %s" % t.get("name"))
        var = lay["variants"]
        if variant is not None and var["k"] == "multiple":
            return var["variants"][variant][idx]
        f = lay["fields"]
        fk = f["k"]
        if fk == "arb":
            return f["offsets"][idx]
        if fk == "union":
            return 0
        if fk == "array":
            return f["stride"] * idx
        raise Unsupported("field offset in primitive %s" % t.get("name"))

    def field_ty(self, tid, idx, variant=None):
        t = self.types[tid]
        k = t["k"]
        if k in ("tuple", "closure"):
            return t["fields"][idx]
        if k == "adt":
            v = 0 if variant is None else variant
            return t["variants"][v]["fields"][idx]["ty"]
        raise Unsupported("field ty of %s" % t.get("name"))

    def elem(self, tid):
        return self.types[tid]["elem"]

    def name(self, tid):
        return self.types[tid].get("name")


class Unsupported(Exception):
    pass
