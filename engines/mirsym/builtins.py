"""Intrinsics and summaries of body-less functions (the boundary of what is interpreted from MIR)."""
import z3

from .program import Unsupported
from .state import PAYLOAD_VT, VT, CatchFrame, FnPtrV, Frame, PathEnd, Ptr, ThreadFrame
from . import interp as I


def _scalar(it, st, arg, size=None):
    blob, tid = arg
    if size is None:
        size = it.prog.size(tid) if tid is not None else 8
    return it.scalar_of(st, blob, size)


def _spans(st, n=4):
    out = []
    for fr in reversed(st.frames):
        if isinstance(fr, Frame):
            t = fr.body["blocks"][fr.bb]["t"]
            sp = t.get("span")
            if sp:
                out.append(sp)
            if len(out) >= n:
                break
    return out


# ------------------------------------------------------------------------------------------
# verification environment
# ------------------------------------------------------------------------------------------
def verif_any_u8(it, st, fn, args, dest, target):
    tag = it.concretize(st, _scalar(it, st, args[0], 4))
    forced = getattr(it, "forced_inputs", None)
    n = len(st.inputs)
    var = z3.BitVec("in%d_t%d" % (n, tag), 8)
    st.inputs.append((tag, var))
    if forced is not None:
        if n < len(forced):
            st.add_constraint(var == forced[n][1])
        else:
            st.add_constraint(var == 0)
    it.ret_scalar(st, dest, target, var, 1)


def verif_assume(it, st, fn, args, dest, target):
    c = I.truth(_scalar(it, st, args[0], 1))
    if c is False:
        raise PathEnd("assume-false")
    if c is not True:
        if not it.check(st, c):
            raise PathEnd("assume-false")
        st.add_constraint(c)
    it.ret_blob(st, dest, target, [])


def verif_check(it, st, fn, args, dest, target):
    c = I.truth(_scalar(it, st, args[0], 1))
    code = it.concretize(st, _scalar(it, st, args[1], 4))
    it.stats["checks"] = it.stats.get("checks", 0) + 1
    if c is True:
        it.ret_blob(st, dest, target, [])
        return
    if c is False:
        m = it.model(st)
        st.violations.append({"code": code, "inputs": m[0] if m else None, "spans": _spans(st), "at": len(st.trace)})
        st.trace.append(("ev", 999, code, 0))
        it.ret_blob(st, dest, target, [])
        return
    m = it.model(st, z3.Not(c))
    if m is not None:
        st.violations.append({"code": code, "inputs": m[0], "spans": _spans(st), "at": len(st.trace), "symbolic": True})
        if not it.check(st, c):
            raise PathEnd("check-failed-always")
    st.add_constraint(c)
    it.ret_blob(st, dest, target, [])


def verif_event(it, st, fn, args, dest, target):
    code = _scalar(it, st, args[0], 4)
    a = _scalar(it, st, args[1], 4)
    b = _scalar(it, st, args[2], 4)
    st.trace.append(("ev", code, a, b))
    if code == 100:
        it.stats["raw_ops"] += 1
    it.ret_blob(st, dest, target, [])


def verif_on_thread(it, st, fn, args, dest, target):
    t = it.concretize(st, _scalar(it, st, args[0], 4))
    f = _scalar(it, st, args[1], 8)
    if not isinstance(f, FnPtrV):
        raise Unsupported("on_thread with non-function pointer")
    st.frames.append(ThreadFrame(st.thread, dest, target))
    # every call is a freshly spawned thread (own thread-locals), as natively
    st.thread_counter = getattr(st, "thread_counter", 0) + 1
    st.thread = 100 * t + st.thread_counter
    it.push_frame(st, f.fn, [], None, None)


def verif_fatal(it, st, fn, args, dest, target):
    raise PathEnd("fatal")


def verif_panic(it, st, fn, args, dest, target):
    it.start_panic(st, "injected")


# ------------------------------------------------------------------------------------------
# panics
# ------------------------------------------------------------------------------------------
def panic_unwind(it, st, fn, args, dest, target):
    it.start_panic(st, fn["name"][:60])


def panic_abort(it, st, fn, args, dest, target):
    raise PathEnd("abort", fn["name"][:80])


def catch_unwind_cleanup(it, st, fn, args, dest, target):
    st.panic_count -= 1
    if not st.exc:
        raise PathEnd("engine-error", "catch_unwind cleanup without an exception in flight")
    exc = st.exc[-1]
    st.exc = st.exc[:-1]
    it.ret_blob(st, dest, target, list(exc))


def resume_unwind(it, st, fn, args, dest, target):
    st.exc = (st.exc or ()) + (list(args[0][0]),)
    st.panic_count += 1
    st.unwinding = True
    st.trace.append(("resume",))
    it.unwind(st)


def thread_panicking(it, st, fn, args, dest, target):
    it.ret_scalar(st, dest, target, 1 if st.panic_count > 0 else 0, 1)


def catch_unwind_intrinsic(it, st, fn, args, dest, target):
    try_fn = _scalar(it, st, args[0], 8)
    data = args[1][0]
    catch_fn = _scalar(it, st, args[2], 8)
    if not isinstance(try_fn, FnPtrV) or not isinstance(catch_fn, FnPtrV):
        raise Unsupported("catch_unwind with non-function pointers")
    st.frames.append(CatchFrame(list(data), catch_fn.fn, dest, target))
    it.push_frame(st, try_fn.fn, [(list(data), None)], None, None)


# ------------------------------------------------------------------------------------------
# allocator
# ------------------------------------------------------------------------------------------
def rust_alloc(it, st, fn, args, dest, target):
    size = it.concretize(st, _scalar(it, st, args[0], 8))
    align = it.concretize(st, _scalar(it, st, args[1], 8))
    aid = st.new_alloc(size, align, "heap", "heap")
    if "zeroed" in fn["name"]:
        a = st.mem[aid]
        o = 0
        while o + 8 <= size:
            a.cells[o] = (8, 0)
            o += 8
        while o < size:
            a.cells[o] = (1, 0)
            o += 1
        a.maxsz = 8
    it.ret_scalar(st, dest, target, Ptr(aid, 0), 8)


def rust_dealloc(it, st, fn, args, dest, target):
    p = _scalar(it, st, args[0], 8)
    size = it.concretize(st, _scalar(it, st, args[1], 8))
    if not isinstance(p, Ptr) or p.off != 0:
        raise PathEnd("memory-error", "dealloc of %r" % (p,))
    a = st.ralloc(p.alloc)
    if a.size != size:
        raise PathEnd("memory-error", "dealloc with wrong size %d (allocation has %d)" % (size, a.size))
    st.free(p.alloc)
    it.ret_blob(st, dest, target, [])


def rust_realloc(it, st, fn, args, dest, target):
    p = _scalar(it, st, args[0], 8)
    old = it.concretize(st, _scalar(it, st, args[1], 8))
    align = it.concretize(st, _scalar(it, st, args[2], 8))
    new = it.concretize(st, _scalar(it, st, args[3], 8))
    if not isinstance(p, Ptr) or p.off != 0:
        raise PathEnd("memory-error", "realloc of %r" % (p,))
    aid = st.new_alloc(new, align, "heap", "heap")
    n = min(old, new)
    if n:
        st.write_blob(aid, 0, n, st.read_blob(p.alloc, 0, n))
    st.free(p.alloc)
    it.ret_scalar(st, dest, target, Ptr(aid, 0), 8)


def noop(it, st, fn, args, dest, target):
    it.ret_blob(st, dest, target, [])


# ------------------------------------------------------------------------------------------
# intrinsics
# ------------------------------------------------------------------------------------------
def _ptr_place(it, st, arg):
    """PlaceRef the (possibly fat) pointer argument points to"""
    blob, tid = arg
    p = None
    meta = None
    for (r, s, v) in blob:
        if r == 0:
            p = v
        elif r == 8:
            meta = v
    pt = it.prog.pointee(tid)
    if isinstance(p, Ptr):
        return I.PlaceRef(p.alloc, p.off, pt, meta)
    return I.PlaceRef(("int", it.concretize(st, p)), 0, pt, meta)


def atomic_load(it, st, fn, args, dest, target):
    pr = _ptr_place(it, st, args[0])
    it.ret_blob(st, dest, target, it.read_place_blob(st, pr))


def atomic_store(it, st, fn, args, dest, target):
    pr = _ptr_place(it, st, args[0])
    it.write_place_blob(st, pr, args[1][0])
    it.ret_blob(st, dest, target, [])


def atomic_xchg(it, st, fn, args, dest, target):
    pr = _ptr_place(it, st, args[0])
    old = it.read_place_blob(st, pr)
    it.write_place_blob(st, pr, args[1][0])
    it.ret_blob(st, dest, target, old)


def _atomic_rmw(op):
    def f(it, st, fn, args, dest, target):
        pr = _ptr_place(it, st, args[0])
        size = it.prog.size(pr.ty)
        old = st.read_scalar(pr.alloc, pr.off, size)
        v = _scalar(it, st, args[1], size)
        new = it.binop(st, op, old, pr.ty, v, pr.ty, pr.ty)
        st.write_scalar(pr.alloc, pr.off, size, new)
        it.ret_scalar(st, dest, target, old, size)
    return f


def atomic_cxchg(it, st, fn, args, dest, target):
    pr = _ptr_place(it, st, args[0])
    size = it.prog.size(pr.ty)
    old = st.read_scalar(pr.alloc, pr.off, size)
    exp = _scalar(it, st, args[1], size)
    new = _scalar(it, st, args[2], size)
    eq = it.binop(st, "Eq", old, pr.ty, exp, pr.ty, None)
    eqv = it.concretize(st, eq)
    if eqv:
        st.write_scalar(pr.alloc, pr.off, size, new)
    rty = dest.ty
    out = [(it.prog.field_offset(rty, 0), size, old), (it.prog.field_offset(rty, 1), 1, 1 if eqv else 0)]
    it.ret_blob(st, dest, target, out)


def intr_abort(it, st, fn, args, dest, target):
    raise PathEnd("abort", "intrinsics::abort")


def size_of_val(it, st, fn, args, dest, target):
    pr = _ptr_place(it, st, args[0])
    it.ret_scalar(st, dest, target, it.place_size(st, pr), 8)


def align_of_val(it, st, fn, args, dest, target):
    pr = _ptr_place(it, st, args[0])
    t = it.prog.types[pr.ty]
    if t["k"] == "dyn" and isinstance(pr.meta, VT):
        al = it.vtable_size_align(pr.meta)[1]
    elif t["k"] in ("slice",):
        al = it.prog.align(t["elem"])
    elif t["k"] == "str":
        al = 1
    else:
        al = t.get("align") or 1
    it.ret_scalar(st, dest, target, al, 8)


def _bits_of_arg(it, arg):
    return it.prog.size(arg[1]) * 8


def ctlz(it, st, fn, args, dest, target):
    bits = _bits_of_arg(it, args[0])
    v = it.concretize(st, _scalar(it, st, args[0]))
    n = bits - v.bit_length()
    it.ret_scalar(st, dest, target, n, 4)


def cttz(it, st, fn, args, dest, target):
    bits = _bits_of_arg(it, args[0])
    v = it.concretize(st, _scalar(it, st, args[0]))
    n = bits if v == 0 else (v & -v).bit_length() - 1
    it.ret_scalar(st, dest, target, n, 4)


def ctpop(it, st, fn, args, dest, target):
    v = it.concretize(st, _scalar(it, st, args[0]))
    it.ret_scalar(st, dest, target, bin(v).count("1"), 4)


def ptr_offset_from(it, st, fn, args, dest, target):
    a = _scalar(it, st, args[0], 8)
    b = _scalar(it, st, args[1], 8)
    es = it.ptr_elem_size(args[0][1])
    d = (st.addr(a) if isinstance(a, Ptr) else it.concretize(st, a)) - (st.addr(b) if isinstance(b, Ptr) else it.concretize(st, b))
    it.ret_scalar(st, dest, target, (d // es) & I.M64, 8)


def saturating(op):
    def f(it, st, fn, args, dest, target):
        tid = args[0][1]
        bits, signed = it.ty_bits(tid)
        a = it.concretize(st, _scalar(it, st, args[0]))
        b = it.concretize(st, _scalar(it, st, args[1]))
        if signed:
            a, b = I.to_signed(a, bits), I.to_signed(b, bits)
            lo, hi = -(1 << (bits - 1)), (1 << (bits - 1)) - 1
        else:
            lo, hi = 0, I.mask(bits)
        r = a + b if op == "add" else a - b
        r = max(lo, min(hi, r))
        it.ret_scalar(st, dest, target, r & I.mask(bits), bits // 8)
    return f


def arith_offset(it, st, fn, args, dest, target):
    a = _scalar(it, st, args[0], 8)
    n = _scalar(it, st, args[1], 8)
    r = it.binop(st, "Offset", a, args[0][1], n, args[1][1], None)
    it.ret_scalar(st, dest, target, r, 8)


def write_bytes(it, st, fn, args, dest, target):
    p = _scalar(it, st, args[0], 8)
    val = _scalar(it, st, args[1], 1)
    cnt = it.concretize(st, _scalar(it, st, args[2], 8))
    n = cnt * it.ptr_elem_size(args[0][1])
    if n:
        if not isinstance(p, Ptr):
            raise PathEnd("memory-error", "write_bytes through integer pointer")
        blob = [(i, 1, val) for i in range(n)]
        st.write_blob(p.alloc, p.off, n, blob)
    it.ret_blob(st, dest, target, [])


def intr_copy(it, st, fn, args, dest, target):
    """intrinsics::copy / copy_nonoverlapping (src, dst, count): memmove semantics (everything is read first)"""
    src = _scalar(it, st, args[0], 8)
    dst = _scalar(it, st, args[1], 8)
    cnt = it.concretize(st, _scalar(it, st, args[2], 8))
    n = cnt * it.ptr_elem_size(args[0][1])
    it.memcpy(st, dst, src, n)
    it.ret_blob(st, dest, target, [])


def compare_bytes(it, st, fn, args, dest, target):
    a = _scalar(it, st, args[0], 8)
    b = _scalar(it, st, args[1], 8)
    n = it.concretize(st, _scalar(it, st, args[2], 8))
    r = 0
    for i in range(n):
        x = it.concretize(st, st.read_scalar(a.alloc, a.off + i, 1))
        y = it.concretize(st, st.read_scalar(b.alloc, b.off + i, 1))
        if x != y:
            r = -1 if x < y else 1
            break
    it.ret_scalar(st, dest, target, r & 0xFFFFFFFF, 4)


def identity(it, st, fn, args, dest, target):
    it.ret_blob(st, dest, target, args[0][0])


def ret_false(it, st, fn, args, dest, target):
    it.ret_scalar(st, dest, target, 0, 1)


def intr_unreachable(it, st, fn, args, dest, target):
    raise PathEnd("memory-error", "intrinsics::unreachable reached")


# ------------------------------------------------------------------------------------------
# HashSet<*const ()> with set semantics (hashing needs OS randomness; the container itself is trusted)
# ------------------------------------------------------------------------------------------
def hashset_new(it, st, fn, args, dest, target):
    sets = getattr(st, "sets", None)
    st.sets = dict(sets) if sets else {}
    sid = len(st.sets) + 1
    st.sets[sid] = ()
    it.ret_blob(st, dest, target, [(0, 8, 0x5E7000 + sid)])


def hashset_insert(it, st, fn, args, dest, target):
    pr = _ptr_place(it, st, args[0])
    sid = st.read_scalar(pr.alloc, pr.off, 8) - 0x5E7000
    v = _scalar(it, st, args[1], 8)
    if not isinstance(v, Ptr):
        v = it.concretize(st, v)
    st.sets = dict(st.sets)
    cur = st.sets[sid]
    present = any(x == v for x in cur)
    if not present:
        st.sets[sid] = cur + (v,)
    it.ret_scalar(st, dest, target, 0 if present else 1, 1)


# ------------------------------------------------------------------------------------------
# core::fmt builders (non-generic, no MIR): the formatting itself is not the subject; what matters is that the
# members' Debug impls (which may try-lock) are called.  Output is discarded.
# ------------------------------------------------------------------------------------------
def _field_off_by_name(it, tid, name):
    t = it.prog.types[tid]
    for i, f in enumerate(t["variants"][0]["fields"]):
        if f["name"] == name:
            return it.prog.field_offset(tid, i), f["ty"]
    raise Unsupported("no field %s in %s" % (name, t.get("name")))


def _fmt_ptr_of_builder(it, st, arg):
    """the &mut Formatter stored in a DebugStruct / DebugTuple / DebugList / DebugSet / DebugInner"""
    blob, tid = arg
    p = it.scalar_of(st, blob, 8)
    pt = it.prog.pointee(tid)
    off = 0
    while True:
        t = it.prog.types[pt]
        names = [f["name"] for f in t["variants"][0]["fields"]]
        if "fmt" in names:
            o, ft = _field_off_by_name(it, pt, "fmt")
            return st.read_scalar(p.alloc, p.off + off + o, 8)
        if "inner" in names:
            o, ft = _field_off_by_name(it, pt, "inner")
            off += o
            pt = ft
            continue
        raise Unsupported("formatter builder %s" % t.get("name"))


def _dyn_debug_call(it, st, fat_blob, fmt_ptr):
    p = vt = None
    for (r, s_, v) in fat_blob:
        if r == 0:
            p = v
        elif r == 8:
            vt = v
    if not isinstance(vt, VT):
        raise Unsupported("dyn Debug without vtable")
    e = it.vtable_entry(vt, 3)
    if not isinstance(e, int):
        raise Unsupported("dyn Debug vtable entry %r" % (e,))
    return (e, [([(0, 8, p)], None), ([(0, 8, fmt_ptr)], None)])


OK_RESULT = [(0, 1, 0)]


def fmt_builder_new(it, st, fn, args, dest, target):
    """Formatter::debug_struct / debug_tuple / debug_list / debug_set / debug_map"""
    fmt_ptr = it.scalar_of(st, args[0][0], 8)
    size = it.prog.size(dest.ty)
    blob = []
    o = 0
    while o + 8 <= size:
        blob.append((o, 8, 0))
        o += 8
    while o < size:
        blob.append((o, 1, 0))
        o += 1
    it.write_place_blob(st, dest, blob)
    # store the formatter pointer
    pt = dest.ty
    off = 0
    while True:
        t = it.prog.types[pt]
        names = [f["name"] for f in t["variants"][0]["fields"]]
        if "fmt" in names:
            fo, _ = _field_off_by_name(it, pt, "fmt")
            st.write_scalar(dest.alloc, dest.off + off + fo, 8, fmt_ptr)
            break
        fo, ft = _field_off_by_name(it, pt, "inner")
        off += fo
        pt = ft
    it.goto(st, target)


def _builder_result_loc(it, st, arg):
    """(alloc, off) of the `result: fmt::Result` byte of a DebugStruct / DebugTuple / DebugInner"""
    blob, tid = arg
    p = it.scalar_of(st, blob, 8)
    pt = it.prog.pointee(tid)
    off = 0
    while True:
        t = it.prog.types[pt]
        names = [f["name"] for f in t["variants"][0]["fields"]]
        if "result" in names:
            o, _ = _field_off_by_name(it, pt, "result")
            return (p.alloc, p.off + off + o)
        if "inner" in names:
            o, ft = _field_off_by_name(it, pt, "inner")
            off += o
            pt = ft
            continue
        return None


def fmt_builder_field(it, st, fn, args, dest, target):
    """DebugStruct::field(self, name, value) / DebugTuple::field(self, value) / DebugList::entry(self, value) -> self.
    As in core: the member is formatted only if no earlier member failed; a failure is remembered in `result`."""
    fmt_ptr = _fmt_ptr_of_builder(it, st, args[0])
    loc = _builder_result_loc(it, st, args[0])
    if loc is not None and it.concretize(st, st.read_scalar(loc[0], loc[1], 1)) != 0:
        it.ret_blob(st, dest, target, list(args[0][0]))
        return
    value = args[-1][0]
    call = _dyn_debug_call(it, st, value, fmt_ptr)
    it.run_script(st, [call], list(args[0][0]), dest, target, on_err=loc)


def fmt_builder_finish(it, st, fn, args, dest, target):
    loc = _builder_result_loc(it, st, args[0])
    r = 0
    if loc is not None:
        r = it.concretize(st, st.read_scalar(loc[0], loc[1], 1))
    it.ret_blob(st, dest, target, [(0, 1, r)])


def fmt_fields_finish(it, st, fn, args, dest, target):
    """Formatter::debug_{struct,tuple}_field{N}_finish and _fields_finish: call every &dyn Debug argument"""
    fmt_ptr = it.scalar_of(st, args[0][0], 8)
    calls = []
    for (blob, tid) in args[1:]:
        if tid is None or not it.prog.is_fat_ptr(tid):
            continue
        pt = it.prog.pointee(tid)
        k = it.prog.kind(pt)
        if k == "dyn":
            calls.append(_dyn_debug_call(it, st, blob, fmt_ptr))
        elif k == "slice":
            et = it.prog.types[pt]["elem"]
            if it.prog.is_fat_ptr(et) and it.prog.kind(it.prog.pointee(et)) == "dyn":
                base = n = None
                for (r, s_, v) in blob:
                    if r == 0:
                        base = v
                    elif r == 8:
                        n = v
                n = it.concretize(st, n)
                for i in range(n):
                    calls.append(_dyn_debug_call(it, st, st.read_blob(base.alloc, base.off + 16 * i, 16), fmt_ptr))
    it.run_script(st, calls, OK_RESULT, dest, target, final_from_acc=True)


def fmt_ok(it, st, fn, args, dest, target):
    it.ret_blob(st, dest, target, OK_RESULT)


def verif_formatter(it, st, fn, args, dest, target):
    size = 64
    for t in it.prog.types:
        if t.get("def_name") in ("std::fmt::Formatter", "core::fmt::Formatter") and t.get("size"):
            size = t["size"]
            break
    aid = st.new_alloc(size, 8, "heap", "formatter")
    a = st.mem[aid]
    o = 0
    while o + 8 <= size:
        a.cells[o] = (8, 0)
        o += 8
    a.maxsz = 8
    it.ret_scalar(st, dest, target, Ptr(aid, 0), 8)


def register(it):
    sc = it.summaries_contains
    sc.append(("std::fmt::Formatter::<'_>::debug_struct_field", fmt_fields_finish))
    sc.append(("std::fmt::Formatter::<'_>::debug_tuple_field", fmt_fields_finish))
    for nm in ("debug_struct", "debug_tuple", "debug_list", "debug_set", "debug_map"):
        sc.append(("std::fmt::Formatter::<'_>::" + nm, fmt_builder_new))
    sc.append(("std::fmt::DebugStruct::<'_, '_>::field", fmt_builder_field))
    sc.append(("std::fmt::DebugTuple::<'_, '_>::field", fmt_builder_field))
    sc.append(("std::fmt::DebugList::<'_, '_>::entry", fmt_builder_field))
    sc.append(("std::fmt::DebugSet::<'_, '_>::entry", fmt_builder_field))
    sc.append(("std::fmt::DebugInner::<'_, '_>::entry", fmt_builder_field))
    sc.append(("::finish_non_exhaustive", fmt_builder_finish))
    sc.append(("std::fmt::DebugStruct::<'_, '_>::finish", fmt_builder_finish))
    sc.append(("std::fmt::DebugTuple::<'_, '_>::finish", fmt_builder_finish))
    sc.append(("std::fmt::DebugList::<'_, '_>::finish", fmt_builder_finish))
    sc.append(("std::fmt::DebugSet::<'_, '_>::finish", fmt_builder_finish))
    sc.append(("std::fmt::Formatter::<'_>::write_str", fmt_ok))
    sc.append(("std::fmt::Formatter::<'_>::pad", fmt_ok))
    sc.append(("std::fmt::Formatter::<'_>::write_fmt", fmt_ok))
    sc.append(("core::fmt::pointer_fmt_inner", fmt_ok))
    sc.append(("core::fmt::num::", fmt_ok))
    sc.append((" as std::fmt::Debug>::fmt", fmt_ok))
    sc.append((" as std::fmt::Display>::fmt", fmt_ok))
    it.summaries["happylock::verif_harness::env::eng::verif_formatter"] = verif_formatter
    it.summaries_contains.append(("drop_in_place::<std::collections::HashSet<", noop))
    it.summaries_contains.append(("std::collections::HashSet::<*const ()>::with_capacity", hashset_new))
    it.summaries_contains.append(("std::collections::HashSet::<*const ()>::insert", hashset_insert))
    s = it.summaries
    p = "happylock::verif_harness::env::eng::"
    s[p + "verif_any_u8"] = verif_any_u8
    s[p + "verif_assume"] = verif_assume
    s[p + "verif_check"] = verif_check
    s[p + "verif_event"] = verif_event
    s[p + "verif_fatal"] = verif_fatal
    s[p + "verif_on_thread"] = verif_on_thread
    s[p + "verif_panic"] = verif_panic
    for n in ("core::panicking::panic", "core::panicking::panic_fmt", "core::panicking::panic_bounds_check",
              "core::panicking::panic_explicit", "core::panicking::unreachable_display",
              "core::panicking::assert_failed_inner", "core::panicking::panic_display",
              "std::option::unwrap_failed", "std::option::expect_failed", "core::option::unwrap_failed",
              "core::option::expect_failed", "std::result::unwrap_failed", "core::result::unwrap_failed",
              "std::thread::local::panic_access_error", "core::slice::index::slice_index_fail",
              "core::slice::index::slice_start_index_len_fail", "core::slice::index::slice_end_index_len_fail",
              "core::slice::index::slice_index_order_fail", "std::cell::lazy::panic_poisoned",
              "core::cell::lazy::panic_poisoned", "alloc::raw_vec::handle_error", "std::alloc::handle_alloc_error",
              "alloc::alloc::handle_alloc_error", "alloc::raw_vec::capacity_overflow",
              "core::num::imp::int_log10::panic_for_nonpositive_argument",
              "core::slice::sort::shared::smallsort::panic_on_ord_violation", "std::rt::begin_panic",
              "std::panicking::begin_panic", "core::cell::panic_already_borrowed",
              "core::cell::panic_already_mutably_borrowed", "core::panicking::panic_const::*",
              "core::slice::<impl [T]>::copy_from_slice::len_mismatch_fail",
              "core::str::slice_error_fail"):
        s[n] = panic_unwind
    for n in ("core::panicking::panic_nounwind", "core::panicking::panic_nounwind_fmt",
              "core::panicking::panic_nounwind_nobacktrace", "core::panicking::panic_cannot_unwind",
              "core::panicking::panic_in_cleanup", "std::process::abort"):
        s[n] = panic_abort
    s["std::panicking::catch_unwind::cleanup"] = catch_unwind_cleanup
    s["std::panicking::try::cleanup"] = catch_unwind_cleanup
    s["std::panic::resume_unwind"] = resume_unwind
    s["std::thread::panicking"] = thread_panicking
    s["std::panicking::panicking"] = thread_panicking
    s["alloc::alloc::__rust_alloc"] = rust_alloc
    s["alloc::alloc::__rust_alloc_zeroed"] = rust_alloc
    s["alloc::alloc::__rust_dealloc"] = rust_dealloc
    s["alloc::alloc::__rust_realloc"] = rust_realloc
    s["alloc::alloc::__rust_no_alloc_shim_is_unstable_v2"] = noop
    s["alloc::alloc::__rust_no_alloc_shim_is_unstable"] = noop

    i = it.intrinsics
    i["catch_unwind"] = catch_unwind_intrinsic
    i["atomic_load"] = atomic_load
    i["atomic_store"] = atomic_store
    i["atomic_xchg"] = atomic_xchg
    i["atomic_cxchg"] = atomic_cxchg
    i["atomic_cxchgweak"] = atomic_cxchg
    i["atomic_xadd"] = _atomic_rmw("Add")
    i["atomic_xsub"] = _atomic_rmw("Sub")
    i["atomic_and"] = _atomic_rmw("BitAnd")
    i["atomic_or"] = _atomic_rmw("BitOr")
    i["atomic_xor"] = _atomic_rmw("BitXor")
    i["atomic_fence"] = noop
    i["atomic_singlethreadfence"] = noop
    i["abort"] = intr_abort
    i["size_of_val"] = size_of_val
    i["align_of_val"] = align_of_val
    i["min_align_of_val"] = align_of_val
    i["ctlz"] = ctlz
    i["ctlz_nonzero"] = ctlz
    i["cttz"] = cttz
    i["cttz_nonzero"] = cttz
    i["ctpop"] = ctpop
    i["ptr_offset_from_unsigned"] = ptr_offset_from
    i["ptr_offset_from"] = ptr_offset_from
    i["saturating_sub"] = saturating("sub")
    i["saturating_add"] = saturating("add")
    i["assert_inhabited"] = noop
    i["assert_zero_valid"] = noop
    i["assert_mem_uninitialized_valid"] = noop
    i["arith_offset"] = arith_offset
    i["write_bytes"] = write_bytes
    i["compare_bytes"] = compare_bytes
    i["copy"] = intr_copy
    i["copy_nonoverlapping"] = intr_copy
    i["volatile_copy_memory"] = intr_copy
    i["black_box"] = identity
    i["likely"] = identity
    i["unlikely"] = identity
    i["is_val_statically_known"] = ret_false
    i["unreachable"] = intr_unreachable
    i["cold_path"] = noop
