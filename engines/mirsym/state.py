"""Symbolic machine state: scalar-granular flat memory (copy-on-write), frames, path condition."""
import z3

from .program import Unsupported


class Ptr(object):
    __slots__ = ("alloc", "off")

    def __init__(self, alloc, off):
        self.alloc = alloc
        self.off = off

    def __repr__(self):
        return "Ptr(a%d+%d)" % (self.alloc, self.off)

    def __eq__(self, o):
        return isinstance(o, Ptr) and o.alloc == self.alloc and o.off == self.off

    def __hash__(self):
        return hash((self.alloc, self.off))


class FnPtrV(object):
    __slots__ = ("fn",)

    def __init__(self, fn):
        self.fn = fn

    def __repr__(self):
        return "Fn(%d)" % self.fn

    def __eq__(self, o):
        return isinstance(o, FnPtrV) and o.fn == self.fn

    def __hash__(self):
        return hash(("fn", self.fn))


class VT(object):
    __slots__ = ("id",)

    def __init__(self, id):
        self.id = id

    def __repr__(self):
        return "VT(%s)" % self.id

    def __eq__(self, o):
        return isinstance(o, VT) and o.id == self.id

    def __hash__(self):
        return hash(("vt", self.id))


PAYLOAD_VT = "payload"


class PathEnd(Exception):
    """terminates the current path with an outcome"""

    def __init__(self, outcome, detail=None):
        Exception.__init__(self, outcome)
        self.outcome = outcome
        self.detail = detail


class Concretize(Exception):
    """raised before any side effect of a statement: fork on the values of expr"""

    def __init__(self, expr):
        Exception.__init__(self, "concretize")
        self.expr = expr


class Alloc(object):
    __slots__ = ("id", "size", "align", "kind", "cells", "freed", "base", "owner", "label", "maxsz")

    def __init__(self, id, size, align, kind, base, owner, label=None):
        self.id = id
        self.size = size
        self.align = align
        self.kind = kind
        self.cells = {}
        self.freed = False
        self.base = base
        self.owner = owner
        self.label = label
        self.maxsz = 1

    def copy(self, owner):
        a = Alloc(self.id, self.size, self.align, self.kind, self.base, owner, self.label)
        a.cells = dict(self.cells)
        a.freed = self.freed
        a.maxsz = self.maxsz
        return a


class Frame(object):
    __slots__ = ("fn", "body", "locals", "bb", "si", "ret_dest", "ret_target", "cleanup")

    def __init__(self, fn, body):
        self.fn = fn
        self.body = body
        self.locals = [None] * len(body["locals"])
        self.bb = 0
        self.si = 0
        self.ret_dest = None
        self.ret_target = None
        self.cleanup = False

    def copy(self):
        f = Frame.__new__(Frame)
        f.fn = self.fn
        f.body = self.body
        f.locals = list(self.locals)
        f.bb = self.bb
        f.si = self.si
        f.ret_dest = self.ret_dest
        f.ret_target = self.ret_target
        f.cleanup = self.cleanup
        return f


class CatchFrame(object):
    """pseudo frame of the catch_unwind intrinsic"""
    __slots__ = ("phase", "data", "catch_fn", "dest", "target")

    def __init__(self, data, catch_fn, dest, target):
        self.phase = "try"
        self.data = data
        self.catch_fn = catch_fn
        self.dest = dest
        self.target = target

    def copy(self):
        c = CatchFrame(self.data, self.catch_fn, self.dest, self.target)
        c.phase = self.phase
        return c


class ThreadFrame(object):
    """pseudo frame: the frames above run on another modelled thread"""
    __slots__ = ("prev_thread", "dest", "target")

    def __init__(self, prev_thread, dest, target):
        self.prev_thread = prev_thread
        self.dest = dest
        self.target = target

    def copy(self):
        return ThreadFrame(self.prev_thread, self.dest, self.target)


class ScriptFrame(object):
    """pseudo frame of a summary that performs several calls in sequence and then returns a value.
    Results of the calls (fmt::Result: 0 = Ok) are accumulated: `acc` becomes 1 if any call returned Err;
    `on_err` = (alloc, off) of a byte that is set to 1 in that case (a builder's `result` field);
    with `final_from_acc` the summary returns the accumulated fmt::Result instead of `final`."""
    __slots__ = ("pending", "final", "dest", "target", "acc", "on_err", "final_from_acc")

    def __init__(self, pending, final, dest, target, on_err=None, final_from_acc=False):
        self.pending = pending
        self.final = final
        self.dest = dest
        self.target = target
        self.acc = 0
        self.on_err = on_err
        self.final_from_acc = final_from_acc

    def copy(self):
        f = ScriptFrame(list(self.pending), self.final, self.dest, self.target, self.on_err, self.final_from_acc)
        f.acc = self.acc
        return f


class Token(object):
    pass


class State(object):
    def __init__(self, prog):
        self.prog = prog
        self.token = Token()
        self.mem = {}
        self.next_alloc = 1
        self.next_base = 0x100000
        self.frames = []
        self.pc = []
        self.known = {}
        self.inputs = []
        self.trace = []
        self.violations = []
        self.unwinding = None
        self.panic_count = 0
        self.exc = None
        self.tls = {}
        self.static_allocs = {}
        self.const_allocs = {}
        self.steps = 0
        self.thread = 0
        self.decisions = []
        self.outcome = None
        self.detail = None
        self.heap_live = 0
        self.notes = []
        self.sets = None
        self.thread_counter = 0

    def clone(self):
        s = State.__new__(State)
        s.prog = self.prog
        s.token = Token()
        self.token = Token()
        s.mem = dict(self.mem)
        s.next_alloc = self.next_alloc
        s.next_base = self.next_base
        s.frames = [f.copy() for f in self.frames]
        s.pc = list(self.pc)
        s.known = dict(self.known)
        s.inputs = list(self.inputs)
        s.trace = list(self.trace)
        s.violations = list(self.violations)
        s.unwinding = self.unwinding
        s.panic_count = self.panic_count
        s.exc = self.exc
        s.tls = dict(self.tls)
        s.static_allocs = dict(self.static_allocs)
        s.const_allocs = dict(self.const_allocs)
        s.steps = self.steps
        s.thread = self.thread
        s.thread_counter = getattr(self, 'thread_counter', 0)
        s.sets = getattr(self, 'sets', None)
        s.decisions = list(self.decisions)
        s.outcome = None
        s.detail = None
        s.heap_live = self.heap_live
        s.notes = list(self.notes)
        return s

    # ---- allocation --------------------------------------------------------------------
    def new_alloc(self, size, align, kind, label=None):
        aid = self.next_alloc
        self.next_alloc += 1
        al = align if align and align > 16 else 16
        base = (self.next_base + al - 1) // al * al
        self.next_base = base + size + 64
        a = Alloc(aid, size, align, kind, base, self.token, label)
        self.mem[aid] = a
        if kind == "heap" and label == "heap":
            self.heap_live += 1
        return aid

    def ralloc(self, aid):
        a = self.mem.get(aid)
        if a is None:
            raise PathEnd("engine-error", "dangling allocation a%s" % aid)
        return a

    def walloc(self, aid):
        a = self.mem.get(aid)
        if a is None:
            raise PathEnd("engine-error", "dangling allocation a%s" % aid)
        if a.owner is not self.token:
            a = a.copy(self.token)
            self.mem[aid] = a
        return a

    def free(self, aid):
        a = self.walloc(aid)
        if a.freed:
            raise PathEnd("memory-error", "double free of a%d (%s)" % (aid, a.label))
        if a.kind != "heap":
            raise PathEnd("memory-error", "free of non-heap allocation a%d" % aid)
        a.freed = True
        a.cells = {}
        if a.label == "heap":
            self.heap_live -= 1

    def addr(self, p):
        if isinstance(p, Ptr):
            return self.ralloc(p.alloc).base + p.off
        if isinstance(p, VT):
            return 0x6FFF0000 if p.id == PAYLOAD_VT else 0x70000000 + 256 * p.id
        if isinstance(p, FnPtrV):
            return 0x60000000 + 16 * p.fn
        return p

    def find_alloc_by_addr(self, addr):
        for a in self.mem.values():
            if a.base <= addr <= a.base + a.size and not a.freed:
                return Ptr(a.id, addr - a.base)
        return None

    # ---- scalar access -----------------------------------------------------------------
    def _check(self, a, off, size, what):
        if a.freed:
            raise PathEnd("memory-error", "%s of freed allocation a%d (%s)" % (what, a.id, a.label))
        if off < 0 or off + size > a.size:
            raise PathEnd("memory-error", "%s out of bounds: a%d (%s) size %d, access [%d,%d)" % (what, a.id, a.label, a.size, off, off + size))

    def read_scalar(self, aid, off, size):
        a = self.ralloc(aid)
        self._check(a, off, size, "read")
        c = a.cells.get(off)
        if c is not None and c[0] == size:
            return c[1]
        return self._gather(a, off, size)

    def _byte_of(self, a, pos):
        cells = a.cells
        o = pos
        lo = pos - a.maxsz
        while o > lo:
            c = cells.get(o)
            if c is not None:
                s, v = c
                if o + s > pos:
                    k = pos - o
                    if isinstance(v, int):
                        return (v >> (8 * k)) & 0xFF
                    if z3.is_bv(v):
                        return z3.Extract(8 * k + 7, 8 * k, v)
                    if isinstance(v, (Ptr, VT, FnPtrV)):
                        return (self.addr(v) >> (8 * k)) & 0xFF
                    raise Unsupported("byte read of %r" % (v,))
                return None
            o -= 1
        return None

    def _gather(self, a, off, size):
        bs = []
        for i in range(size):
            b = self._byte_of(a, off + i)
            if b is None:
                raise PathEnd("memory-error", "read of uninitialised memory a%d (%s) +%d size %d" % (a.id, a.label, off, size))
            bs.append(b)
        if all(isinstance(b, int) for b in bs):
            v = 0
            for i, b in enumerate(bs):
                v |= b << (8 * i)
            return v
        parts = [b if not isinstance(b, int) else z3.BitVecVal(b, 8) for b in bs]
        parts.reverse()
        return z3.simplify(z3.Concat(*parts)) if len(parts) > 1 else parts[0]

    def _clear_range(self, a, off, size):
        cells = a.cells
        if not cells:
            return
        for o in range(off - a.maxsz + 1, off + size):
            c = cells.get(o)
            if c is None:
                continue
            s, v = c
            if o + s <= off:
                continue
            if o >= off and o + s <= off + size:
                del cells[o]
                continue
            # partial overlap: keep the bytes outside the range
            del cells[o]
            if isinstance(v, (Ptr, VT, FnPtrV)):
                v = self.addr(v)
            if isinstance(v, int) or z3.is_bv(v):
                for k in range(s):
                    p = o + k
                    if off <= p < off + size:
                        continue
                    if isinstance(v, int):
                        cells[p] = (1, (v >> (8 * k)) & 0xFF)
                    else:
                        cells[p] = (1, z3.Extract(8 * k + 7, 8 * k, v))

    def write_scalar(self, aid, off, size, val):
        a = self.walloc(aid)
        self._check(a, off, size, "write")
        c = a.cells.get(off)
        if c is None or c[0] != size:
            self._clear_range(a, off, size)
            if size > a.maxsz:
                a.maxsz = size
        a.cells[off] = (size, val)

    # ---- blobs -------------------------------------------------------------------------
    def read_blob(self, aid, off, size):
        if size == 0:
            return []
        a = self.ralloc(aid)
        self._check(a, off, size, "read")
        out = []
        cells = a.cells
        c = cells.get(off)
        if c is not None and c[0] == size:
            return [(0, size, c[1])]
        end = off + size
        if size <= 64 or size < 2 * len(cells):
            o = off - a.maxsz + 1
            while o < end:
                c = cells.get(o)
                if c is not None:
                    s, v = c
                    if o >= off and o + s <= end:
                        out.append((o - off, s, v))
                    elif o + s > off and o < end:
                        self._split_into(out, o, s, v, off, end)
                o += 1
        else:
            for o, (s, v) in cells.items():
                if o >= off and o + s <= end:
                    out.append((o - off, s, v))
                elif o + s > off and o < end:
                    self._split_into(out, o, s, v, off, end)
        return out

    def _split_into(self, out, o, s, v, off, end):
        if isinstance(v, (Ptr, VT, FnPtrV)):
            v = self.addr(v)
        if not (isinstance(v, int) or z3.is_bv(v)):
            return
        for k in range(s):
            p = o + k
            if off <= p < end:
                if isinstance(v, int):
                    out.append((p - off, 1, (v >> (8 * k)) & 0xFF))
                else:
                    out.append((p - off, 1, z3.Extract(8 * k + 7, 8 * k, v)))

    def write_blob(self, aid, off, size, blob):
        if size == 0:
            return
        a = self.walloc(aid)
        self._check(a, off, size, "write")
        cells = a.cells
        if len(blob) == 1 and blob[0][0] == 0 and blob[0][1] == size:
            c = cells.get(off)
            if c is not None and c[0] == size:
                cells[off] = (size, blob[0][2])
                return
        self._clear_range(a, off, size)
        mx = a.maxsz
        for (r, s, v) in blob:
            cells[off + r] = (s, v)
            if s > mx:
                mx = s
        a.maxsz = mx

    # ---- path condition ----------------------------------------------------------------
    def add_constraint(self, c):
        self.pc.append(c)
