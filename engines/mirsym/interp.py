"""mirsym: path-forking symbolic interpreter for the dumped monomorphic MIR.

Values are scalars (python int, z3 bit-vector, Ptr, FnPtrV, VT) stored in scalar-granular flat
memory; aggregates are copied as blobs.  Control flow on symbolic values forks the state after
asking z3 which successors are feasible under the path condition.  Unwinding follows the MIR
unwind actions; `catch_unwind` is implemented at the intrinsic level."""
import re
import time

import z3

from .program import Program, Unsupported
from .state import (PAYLOAD_VT, VT, Alloc, CatchFrame, Concretize, FnPtrV, Frame, PathEnd, Ptr, ScriptFrame, State, ThreadFrame)

M64 = (1 << 64) - 1


def mask(bits):
    return (1 << bits) - 1


def to_signed(v, bits):
    return v - (1 << bits) if v >> (bits - 1) else v


def is_sym(v):
    return z3.is_expr(v)


def bv(v, bits):
    if isinstance(v, int):
        return z3.BitVecVal(v & mask(bits), bits)
    return v


def bool_to_bv8(b):
    if isinstance(b, bool):
        return 1 if b else 0
    b = z3.simplify(b)
    if z3.is_true(b):
        return 1
    if z3.is_false(b):
        return 0
    return z3.If(b, z3.BitVecVal(1, 8), z3.BitVecVal(0, 8))


def truth(v):
    """scalar bool value -> python bool or z3 Bool"""
    if isinstance(v, int):
        return v != 0
    # If(c,1,0) != 0  ==> c
    if z3.is_app_of(v, z3.Z3_OP_ITE):
        a, b, c = v.arg(0), v.arg(1), v.arg(2)
        if z3.is_bv_value(b) and z3.is_bv_value(c):
            bl, cl = b.as_long(), c.as_long()
            if bl != 0 and cl == 0:
                return a
            if bl == 0 and cl != 0:
                return z3.Not(a)
    return v != 0


class PlaceRef(object):
    __slots__ = ("alloc", "off", "ty", "meta", "variant")

    def __init__(self, alloc, off, ty, meta=None, variant=None):
        self.alloc = alloc
        self.off = off
        self.ty = ty
        self.meta = meta
        self.variant = variant


SCRIPT_DEST = PlaceRef(None, 0, None)  # sentinel: the callee's return value is wanted (by a ScriptFrame)


class Violation(object):
    def __init__(self, code, model_inputs, trace, span=None, kind="check", detail=None):
        self.code = code
        self.inputs = model_inputs
        self.trace = trace
        self.span = span
        self.kind = kind
        self.detail = detail


class Interp(object):
    def __init__(self, prog, max_steps=3000000, max_paths=200000, timeout_ms=20000):
        self.prog = prog
        self.solver = z3.Solver()
        self.solver.set("timeout", timeout_ms)
        self.max_steps = max_steps
        self.max_paths = max_paths
        self.stats = {"paths": 0, "steps": 0, "queries": 0, "solver_s": 0.0, "forks": 0, "unknown": 0,
                      "raw_ops": 0, "yield_states": 0}
        self.fns_executed = set()
        self.summaries_used = set()
        self.intrinsics = {}
        self.summaries = {}
        self.summaries_contains = []
        from . import builtins
        builtins.register(self)
        self._sumcache = {}

    # =====================================================================================
    # solver
    # =====================================================================================
    def check(self, st, extra=None):
        t0 = time.time()
        s = self.solver
        s.push()
        for c in st.pc:
            s.add(c)
        if extra is not None:
            s.add(extra)
        r = s.check()
        s.pop()
        self.stats["queries"] += 1
        self.stats["solver_s"] += time.time() - t0
        if r == z3.unknown:
            self.stats["unknown"] += 1
            raise PathEnd("solver-unknown", "z3 returned unknown")
        return r == z3.sat

    def model(self, st, extra=None):
        t0 = time.time()
        s = self.solver
        s.push()
        for c in st.pc:
            s.add(c)
        if extra is not None:
            s.add(extra)
        r = s.check()
        m = None
        if r == z3.sat:
            m = s.model()
            vals = []
            for (tag, var) in st.inputs:
                v = m.eval(var, model_completion=True)
                vals.append((tag, v.as_long()))
            m = (vals, m)
        s.pop()
        self.stats["queries"] += 1
        self.stats["solver_s"] += time.time() - t0
        if r == z3.unknown:
            self.stats["unknown"] += 1
            raise PathEnd("solver-unknown", "z3 returned unknown")
        return m

    def concretize(self, st, v):
        if isinstance(v, int):
            return v
        if isinstance(v, Ptr):
            return st.addr(v)
        s = z3.simplify(v)
        if z3.is_bv_value(s):
            return s.as_long()
        k = st.known.get(s.get_id())
        if k is not None and k[0].eq(s):
            return k[1]
        raise Concretize(s)

    def feasible_values(self, st, expr, limit=64):
        vals = []
        s = self.solver
        t0 = time.time()
        s.push()
        for c in st.pc:
            s.add(c)
        while True:
            r = s.check()
            self.stats["queries"] += 1
            if r == z3.unknown:
                s.pop()
                raise PathEnd("solver-unknown", "z3 returned unknown")
            if r != z3.sat:
                break
            v = s.model().eval(expr, model_completion=True).as_long()
            vals.append(v)
            if len(vals) > limit:
                s.pop()
                raise Unsupported("more than %d values for a concretised expression" % limit)
            s.add(expr != v)
        s.pop()
        self.stats["solver_s"] += time.time() - t0
        return vals

    # =====================================================================================
    # memory helpers
    # =====================================================================================
    def local_alloc(self, st, fr, l):
        a = fr.locals[l]
        if a is None:
            tid = fr.body["locals"][l]
            t = self.prog.types[tid]
            size = t.get("size")
            if size is None:
                raise Unsupported("unsized local of type %s" % t.get("name"))
            a = st.new_alloc(size, t.get("align") or 1, "local", None)
            fr.locals[l] = a
        return a

    def read_ptr_at(self, st, alloc, off, tid):
        """reads a (possibly fat) pointer value of pointer-like type tid: returns (ptrscalar, meta)"""
        p = st.read_scalar(alloc, off, 8)
        meta = None
        if self.prog.is_fat_ptr(tid):
            meta = st.read_scalar(alloc, off + 8, 8)
        return p, meta

    def eval_place(self, st, fr, place):
        prog = self.prog
        l = place["l"]
        alloc = self.local_alloc(st, fr, l)
        off = 0
        tid = fr.body["locals"][l]
        meta = None
        variant = None
        for pe in place["p"]:
            k = pe[0]
            if k == "deref":
                p, m = self.read_ptr_at(st, alloc, off, tid)
                tid = prog.pointee(tid)
                if tid is None:
                    raise Unsupported("deref of non-pointer")
                if isinstance(p, Ptr):
                    alloc, off = p.alloc, p.off
                else:
                    pv = self.concretize(st, p)
                    r = st.find_alloc_by_addr(pv) if pv >= 0x100000 else None
                    if r is not None:
                        alloc, off = r.alloc, r.off
                    else:
                        # integer pointer: only zero-sized accesses are legal
                        alloc, off = ("int", pv), 0
                meta = m
                variant = None
            elif k == "field":
                if isinstance(alloc, tuple):
                    raise PathEnd("memory-error", "field access through integer pointer %r" % (alloc,))
                off += prog.field_offset(tid, pe[1], variant)
                tid = pe[2]
                variant = None
                # meta is kept for unsized tail fields
            elif k == "downcast":
                variant = pe[1]
            elif k == "index":
                ia = self.local_alloc(st, fr, pe[1])
                idx = self.concretize(st, st.read_scalar(ia, 0, 8))
                t = prog.types[tid]
                et = t["elem"]
                off += idx * prog.size(et)
                tid = et
                meta = None
            elif k == "cindex":
                t = prog.types[tid]
                et = t["elem"]
                if pe[3]:
                    n = t["len"] if t["k"] == "array" else self.concretize(st, meta)
                    idx = n - pe[1]
                else:
                    idx = pe[1]
                off += idx * prog.size(et)
                tid = et
                meta = None
            elif k == "subslice":
                t = prog.types[tid]
                et = t["elem"]
                n = t["len"] if t["k"] == "array" else self.concretize(st, meta)
                frm, to, from_end = pe[1], pe[2], pe[3]
                off += frm * prog.size(et)
                if t["k"] != "array":
                    meta = (n - to - frm) if from_end else (to - frm)
                else:
                    raise Unsupported("subslice of array")
            elif k == "opaque":
                tid = pe[1]
            else:
                raise Unsupported("projection %s" % k)
        return PlaceRef(alloc, off, tid, meta, variant)

    def place_size(self, st, pr):
        t = self.prog.types[pr.ty]
        s = t.get("size")
        if s is not None:
            return s
        k = t["k"]
        if k in ("slice", "str"):
            n = self.concretize(st, pr.meta)
            es = 1 if k == "str" else self.prog.size(t["elem"])
            return n * es
        if k == "dyn" and isinstance(pr.meta, VT):
            return self.vtable_size_align(pr.meta)[0]
        raise Unsupported("size of unsized place %s" % t.get("name"))

    def read_place_blob(self, st, pr):
        size = self.place_size(st, pr)
        if size == 0:
            return []
        if isinstance(pr.alloc, tuple):
            raise PathEnd("memory-error", "read through integer pointer %r" % (pr.alloc,))
        return st.read_blob(pr.alloc, pr.off, size)

    def write_place_blob(self, st, pr, blob):
        size = self.place_size(st, pr)
        if size == 0:
            return
        if isinstance(pr.alloc, tuple):
            raise PathEnd("memory-error", "write through integer pointer %r" % (pr.alloc,))
        st.write_blob(pr.alloc, pr.off, size, blob)

    def place_ptr_blob(self, st, pr):
        """pointer (thin or fat) to the place, as a blob"""
        if isinstance(pr.alloc, tuple):
            p = pr.alloc[1] + pr.off
        else:
            p = Ptr(pr.alloc, pr.off)
        if self.prog.is_unsized(pr.ty):
            return [(0, 8, p), (8, 8, pr.meta)]
        return [(0, 8, p)]

    # ---- constants --------------------------------------------------------------------
    def alloc_from_const(self, st, aj, kind, label):
        bytes_ = aj["bytes"]
        aid = st.new_alloc(len(bytes_), aj.get("align", 1), kind, label)
        a = st.mem[aid]
        for (r, s, v) in self.const_cells(st, aj):
            a.cells[r] = (s, v)
        a.maxsz = 8
        return aid

    def prov_value(self, st, target, addend):
        k = target["k"]
        if k == "fn":
            return FnPtrV(target["fn"])
        if k == "vtable":
            return VT(target["id"])
        if k == "static":
            return Ptr(self.static_alloc(st, target["id"]), addend)
        if k == "mem":
            gid = target["id"]
            aid = st.const_allocs.get(gid)
            if aid is None:
                aid = self.alloc_from_const(st, self.prog.allocs[gid], "const", "const%d" % gid)
                st.const_allocs[gid] = aid
            return Ptr(aid, addend)
        raise Unsupported("provenance target %s" % k)

    def const_cells(self, st, aj):
        bytes_ = aj["bytes"]
        cells = []
        covered = set()
        for off, target in aj["prov"]:
            addend = 0
            for i in range(8):
                b = bytes_[off + i]
                addend |= (b or 0) << (8 * i)
                covered.add(off + i)
            cells.append((off, 8, self.prov_value(st, target, addend)))
        n = len(bytes_)
        i = 0
        while i < n:
            if i in covered or bytes_[i] is None:
                i += 1
                continue
            # group naturally aligned runs of up to 8 initialised bytes
            run = 1
            while run < 8 and i + run < n and (i + run) not in covered and bytes_[i + run] is not None and (i % 8) + run < 8:
                run += 1
            size = 8 if run == 8 else (4 if run >= 4 and i % 4 == 0 else (2 if run >= 2 and i % 2 == 0 else 1))
            if size > run:
                size = 1
            v = 0
            for k in range(size):
                v |= bytes_[i + k] << (8 * k)
            cells.append((i, size, v))
            i += size
        return cells

    def static_alloc(self, st, sid):
        aid = st.static_allocs.get(sid)
        if aid is None:
            s = self.prog.statics[sid]
            if s["alloc"] is None:
                raise Unsupported("static without initializer %s" % s["name"])
            aid = self.alloc_from_const(st, s["alloc"], "static", s["name"])
            st.static_allocs[sid] = aid
        return aid

    def eval_const(self, st, c, tid):
        k = c["k"]
        if k == "zst" or k == "fndef":
            return []
        if k == "bytes":
            return self.const_cells(st, c["alloc"])
        raise Unsupported("constant %s" % c.get("what", k))

    def eval_operand(self, st, fr, op):
        """-> (blob, type id)"""
        k = op[0]
        if k == "copy" or k == "move":
            pr = self.eval_place(st, fr, op[1])
            return self.read_place_blob(st, pr), pr.ty
        if k == "const":
            return self.eval_const(st, op[1], op[2]), op[2]
        if k == "rtcheck":
            return [(0, 1, 0)], None
        raise Unsupported("operand %s" % k)

    def scalar_of(self, st, blob, size):
        """the single scalar of `size` bytes a blob represents"""
        if len(blob) == 1 and blob[0][0] == 0 and blob[0][1] == size:
            return blob[0][2]
        if size == 0:
            return 0
        # compose from pieces
        tmp = Alloc(0, size, 1, "tmp", 0, None)
        tmp.maxsz = 16
        for (r, s, v) in blob:
            tmp.cells[r] = (s, v)
        return st._gather(tmp, 0, size)

    def eval_fatcmp_scalar(self, st, fr, op):
        """like eval_scalar; a fat pointer becomes (address << 64 | metadata) so that comparisons are
        lexicographic on (address, metadata) as in Rust"""
        blob, tid = self.eval_operand(st, fr, op)
        if tid is not None and self.prog.is_fat_ptr(tid):
            p = m = 0
            for (r, s_, v) in blob:
                if r == 0:
                    p = v
                elif r == 8:
                    m = v
            p = self.concretize(st, st.addr(p))
            m = self.concretize(st, st.addr(m))
            return (p << 64) | m, tid
        if tid is None:
            return blob[0][2], None
        return self.scalar_of(st, blob, self.prog.size(tid)), tid

    def eval_scalar(self, st, fr, op):
        """-> (scalar, type id) for scalar-typed operands (thin pointers included)"""
        blob, tid = self.eval_operand(st, fr, op)
        if tid is None:
            return blob[0][2], None
        size = self.prog.size(tid)
        return self.scalar_of(st, blob, size), tid

    # =====================================================================================
    # scalar operations
    # =====================================================================================
    def ty_bits(self, tid):
        t = self.prog.types[tid]
        k = t["k"]
        if k == "int":
            return t["bits"], t["signed"]
        if k == "bool":
            return 8, False
        if k == "char":
            return 32, False
        if k in ("ptr", "ref", "fnptr"):
            return (128 if t.get("size") == 16 else 64), False
        s = t.get("size")
        if s in (1, 2, 4, 8, 16):
            # newtype around a scalar
            return s * 8, False
        raise Unsupported("not a scalar type: %s" % t.get("name"))

    def ptr_elem_size(self, tid):
        p = self.prog.pointee(tid)
        return self.prog.types[p].get("size") or 1

    def binop(self, st, op, a, ta, b, tb, rty):
        prog = self.prog
        if op == "Offset":
            n = b
            if isinstance(n, Ptr):
                n = st.addr(n)
            n = self.concretize(st, n)
            bits_b, signed_b = self.ty_bits(tb)
            if signed_b:
                n = to_signed(n, bits_b)
            es = self.ptr_elem_size(ta)
            if isinstance(a, Ptr):
                return Ptr(a.alloc, a.off + n * es)
            a = self.concretize(st, a)
            return (a + n * es) & M64
        bits, signed = self.ty_bits(ta)
        pa, pb = isinstance(a, Ptr), isinstance(b, Ptr)
        if op in ("Eq", "Ne", "Lt", "Le", "Gt", "Ge", "Cmp"):
            if pa and pb:
                if op == "Eq":
                    return 1 if (a.alloc == b.alloc and a.off == b.off) else 0
                if op == "Ne":
                    return 0 if (a.alloc == b.alloc and a.off == b.off) else 1
            if isinstance(a, (FnPtrV, VT)):
                a = st.addr(a)
            if isinstance(b, (FnPtrV, VT)):
                b = st.addr(b)
            if pa:
                a = st.addr(a)
            if pb:
                b = st.addr(b)
            if isinstance(a, int) and isinstance(b, int):
                if signed:
                    a, b = to_signed(a, bits), to_signed(b, bits)
                if op == "Cmp":
                    return 0xFF if a < b else (0 if a == b else 1)
                r = {"Eq": a == b, "Ne": a != b, "Lt": a < b, "Le": a <= b, "Gt": a > b, "Ge": a >= b}[op]
                return 1 if r else 0
            za, zb = bv(a, bits), bv(b, bits)
            if op == "Eq":
                return bool_to_bv8(za == zb)
            if op == "Ne":
                return bool_to_bv8(za != zb)
            if op == "Cmp":
                lt = (za < zb) if signed else z3.ULT(za, zb)
                return z3.If(lt, z3.BitVecVal(0xFF, 8), z3.If(za == zb, z3.BitVecVal(0, 8), z3.BitVecVal(1, 8)))
            if signed:
                r = {"Lt": za < zb, "Le": za <= zb, "Gt": za > zb, "Ge": za >= zb}[op]
            else:
                r = {"Lt": z3.ULT(za, zb), "Le": z3.ULE(za, zb), "Gt": z3.UGT(za, zb), "Ge": z3.UGE(za, zb)}[op]
            return bool_to_bv8(r)
        if pa or isinstance(a, (FnPtrV, VT)):
            a = st.addr(a)
        if pb or isinstance(b, (FnPtrV, VT)):
            b = st.addr(b)
        if op in ("Shl", "ShlUnchecked", "Shr", "ShrUnchecked"):
            bb, _ = self.ty_bits(tb)
            if isinstance(b, int):
                sh = b & (bits - 1) if op in ("Shl", "Shr") else b
                if isinstance(a, int):
                    if op.startswith("Shl"):
                        return (a << sh) & mask(bits)
                    if signed:
                        return (to_signed(a, bits) >> sh) & mask(bits)
                    return a >> sh
                zb = z3.BitVecVal(sh, bits)
            else:
                zb = b
                if bb > bits:
                    zb = z3.Extract(bits - 1, 0, zb)
                elif bb < bits:
                    zb = z3.ZeroExt(bits - bb, zb)
                zb = zb & (bits - 1)
            za = bv(a, bits)
            if op.startswith("Shl"):
                return z3.simplify(za << zb)
            return z3.simplify((za >> zb) if signed else z3.LShR(za, zb))
        if isinstance(a, int) and isinstance(b, int):
            m = mask(bits)
            if op in ("Add", "AddUnchecked"):
                return (a + b) & m
            if op in ("Sub", "SubUnchecked"):
                return (a - b) & m
            if op in ("Mul", "MulUnchecked"):
                return (a * b) & m
            if op == "BitAnd":
                return a & b
            if op == "BitOr":
                return a | b
            if op == "BitXor":
                return a ^ b
            if op in ("Div", "Rem"):
                if signed:
                    sa, sb = to_signed(a, bits), to_signed(b, bits)
                    q = abs(sa) // abs(sb)
                    if (sa < 0) != (sb < 0):
                        q = -q
                    r = sa - q * sb
                    return (q if op == "Div" else r) & m
                return (a // b) if op == "Div" else (a % b)
            raise Unsupported("binop %s" % op)
        za, zb = bv(a, bits), bv(b, bits)
        if op in ("Add", "AddUnchecked"):
            r = za + zb
        elif op in ("Sub", "SubUnchecked"):
            r = za - zb
        elif op in ("Mul", "MulUnchecked"):
            r = za * zb
        elif op == "BitAnd":
            r = za & zb
        elif op == "BitOr":
            r = za | zb
        elif op == "BitXor":
            r = za ^ zb
        elif op == "Div":
            r = (za / zb) if signed else z3.UDiv(za, zb)
        elif op == "Rem":
            r = z3.SRem(za, zb) if signed else z3.URem(za, zb)
        else:
            raise Unsupported("binop %s" % op)
        return z3.simplify(r)

    def checked_binop(self, st, op, a, ta, b, tb):
        bits, signed = self.ty_bits(ta)
        if isinstance(a, Ptr):
            a = st.addr(a)
        if isinstance(b, Ptr):
            b = st.addr(b)
        if isinstance(a, int) and isinstance(b, int):
            if signed:
                sa, sb = to_signed(a, bits), to_signed(b, bits)
            else:
                sa, sb = a, b
            full = {"Add": sa + sb, "Sub": sa - sb, "Mul": sa * sb}[op]
            lo, hi = (-(1 << (bits - 1)), (1 << (bits - 1)) - 1) if signed else (0, mask(bits))
            return full & mask(bits), 0 if lo <= full <= hi else 1
        za, zb = bv(a, bits), bv(b, bits)
        ext = bits + (bits if op == "Mul" else 1)
        if signed:
            ea, eb = z3.SignExt(ext - bits, za), z3.SignExt(ext - bits, zb)
        else:
            ea, eb = z3.ZeroExt(ext - bits, za), z3.ZeroExt(ext - bits, zb)
        full = {"Add": ea + eb, "Sub": ea - eb, "Mul": ea * eb}[op]
        res = z3.Extract(bits - 1, 0, full)
        back = z3.SignExt(ext - bits, res) if signed else z3.ZeroExt(ext - bits, res)
        return z3.simplify(res), bool_to_bv8(back != full)

    def int_cast(self, v, from_bits, from_signed, to_bits):
        if isinstance(v, int):
            if from_signed:
                v = to_signed(v, from_bits)
            return v & mask(to_bits)
        if to_bits == from_bits:
            return v
        if to_bits < from_bits:
            return z3.simplify(z3.Extract(to_bits - 1, 0, v))
        if from_signed:
            return z3.simplify(z3.SignExt(to_bits - from_bits, v))
        return z3.simplify(z3.ZeroExt(to_bits - from_bits, v))

    # =====================================================================================
    # discriminants
    # =====================================================================================
    def read_discriminant(self, st, pr):
        """-> (discriminant value as int or z3 BV of `bits`, bits)"""
        t = self.prog.types[pr.ty]
        lay = t["layout"]
        var = lay["variants"]
        k = var["k"]
        if t["k"] != "adt" or t.get("adt") != "enum":
            return 0, 64
        dbits = 64
        if k == "single":
            idx = var["index"]
            d = t["variants"][idx]["discr"]
            return int(d), dbits
        if k == "empty":
            raise PathEnd("memory-error", "discriminant of uninhabited enum")
        tag = var["tag"]
        tbits = tag["bits"]
        toff = lay["fields"]["offsets"][var["tag_field"]] if lay["fields"]["k"] == "arb" else 0
        tv = st.read_scalar(pr.alloc, pr.off + toff, tbits // 8)
        if isinstance(tv, Ptr):
            tv = st.addr(tv)
        elif isinstance(tv, (FnPtrV, VT)):
            tv = 0x7000000
        enc = var["encoding"]
        variants = t["variants"]
        if enc["k"] == "direct":
            if isinstance(tv, int):
                return tv, tbits
            return tv, tbits
        start, end, untagged, nstart = enc["start"], enc["end"], enc["untagged"], int(enc["niche_start"])
        if isinstance(tv, int):
            rel = (tv - nstart) & mask(tbits)
            vi = start + rel if rel <= end - start else untagged
            return int(variants[vi]["discr"]), dbits
        rel = tv - z3.BitVecVal(nstart, tbits)
        res = z3.BitVecVal(int(variants[untagged]["discr"]), dbits)
        for vi in range(end, start - 1, -1):
            res = z3.If(rel == (vi - start), z3.BitVecVal(int(variants[vi]["discr"]), dbits), res)
        return z3.simplify(res), dbits

    def write_discriminant(self, st, pr, variant):
        t = self.prog.types[pr.ty]
        if t["k"] != "adt" or t.get("adt") != "enum":
            return
        lay = t["layout"]
        var = lay["variants"]
        if var["k"] != "multiple":
            return
        tag = var["tag"]
        tbits = tag["bits"]
        toff = lay["fields"]["offsets"][var["tag_field"]] if lay["fields"]["k"] == "arb" else 0
        enc = var["encoding"]
        if enc["k"] == "direct":
            d = int(t["variants"][variant]["discr"]) & mask(tbits)
            st.write_scalar(pr.alloc, pr.off + toff, tbits // 8, d)
        else:
            if variant == enc["untagged"]:
                return
            d = (int(enc["niche_start"]) + (variant - enc["start"])) & mask(tbits)
            st.write_scalar(pr.alloc, pr.off + toff, tbits // 8, d)

    # =====================================================================================
    # rvalues
    # =====================================================================================
    def eval_rvalue(self, st, fr, rv, dest):
        """evaluates rv and writes it to dest (a PlaceRef)"""
        prog = self.prog
        k = rv["k"]
        if k == "use":
            blob, _ = self.eval_operand(st, fr, rv["o"])
            self.write_place_blob(st, dest, blob)
            return
        if k == "ref" or k == "addrof":
            pr = self.eval_place(st, fr, rv["p"])
            self.write_place_blob(st, dest, self.place_ptr_blob(st, pr))
            return
        if k == "agg":
            ak = rv["ak"]
            vals = [self.eval_operand(st, fr, o) for o in rv["ops"]]
            kind = ak[0]
            rty = dest.ty
            size = prog.size(rty)
            out = []
            if kind in ("tuple", "closure"):
                for i, (blob, _) in enumerate(vals):
                    fo = prog.field_offset(rty, i)
                    out.extend((fo + r, s, v) for (r, s, v) in blob)
                self.write_place_blob(st, dest, out)
            elif kind == "adt":
                variant, active = ak[1], ak[2]
                t = prog.types[rty]
                if t.get("adt") == "union":
                    blob = vals[0][0]
                    self.write_place_blob(st, dest, list(blob))
                    return
                multi = t["layout"]["variants"]["k"] == "multiple"
                for i, (blob, _) in enumerate(vals):
                    fo = prog.field_offset(rty, i, variant if multi else None)
                    out.extend((fo + r, s, v) for (r, s, v) in blob)
                self.write_place_blob(st, dest, out)
                if t.get("adt") == "enum":
                    self.write_discriminant(st, dest, variant)
            elif kind == "array":
                es = prog.size(ak[1])
                for i, (blob, _) in enumerate(vals):
                    out.extend((i * es + r, s, v) for (r, s, v) in blob)
                self.write_place_blob(st, dest, out)
            elif kind == "rawptr":
                p = self.scalar_of(st, vals[0][0], 8)
                out = [(0, 8, p)]
                if prog.is_fat_ptr(rty):
                    out.append((8, 8, self.scalar_of(st, vals[1][0], 8)))
                self.write_place_blob(st, dest, out)
            else:
                raise Unsupported("aggregate %s" % kind)
            return
        if k == "binop":
            a, ta = self.eval_fatcmp_scalar(st, fr, rv["a"])
            b, tb = self.eval_fatcmp_scalar(st, fr, rv["b"])
            r = self.binop(st, rv["op"], a, ta, b, tb, rv.get("ty"))
            st.write_scalar(dest.alloc, dest.off, prog.size(dest.ty), r)
            return
        if k == "checked":
            a, ta = self.eval_scalar(st, fr, rv["a"])
            b, tb = self.eval_scalar(st, fr, rv["b"])
            r, ov = self.checked_binop(st, rv["op"], a, ta, b, tb)
            rty = dest.ty
            st.write_scalar(dest.alloc, dest.off + prog.field_offset(rty, 0), prog.size(ta), r)
            st.write_scalar(dest.alloc, dest.off + prog.field_offset(rty, 1), 1, ov)
            return
        if k == "unop":
            op = rv["op"]
            if op == "PtrMetadata":
                blob, ta = self.eval_operand(st, fr, rv["a"])
                if prog.is_fat_ptr(ta):
                    m = None
                    for (r, s, v) in blob:
                        if r == 8:
                            m = v
                    st.write_scalar(dest.alloc, dest.off, 8, m)
                return
            a, ta = self.eval_scalar(st, fr, rv["a"])
            bits, signed = self.ty_bits(ta)
            if op == "Not":
                if prog.kind(ta) == "bool":
                    r = (0 if a else 1) if isinstance(a, int) else bool_to_bv8(z3.Not(truth(a)))
                else:
                    r = (~a) & mask(bits) if isinstance(a, int) else z3.simplify(~a)
            elif op == "Neg":
                r = (-a) & mask(bits) if isinstance(a, int) else z3.simplify(-a)
            else:
                raise Unsupported("unop %s" % op)
            st.write_scalar(dest.alloc, dest.off, bits // 8, r)
            return
        if k == "cast":
            self.eval_cast(st, fr, rv, dest)
            return
        if k == "discr":
            pr = self.eval_place(st, fr, rv["p"])
            d, dbits = self.read_discriminant(st, pr)
            obits = prog.size(dest.ty) * 8
            t = prog.types[pr.ty]
            signed = False
            if t["k"] == "adt" and t["layout"]["variants"]["k"] == "multiple":
                signed = t["layout"]["variants"]["tag"]["signed"]
            d = self.int_cast(d, dbits, signed, obits)
            st.write_scalar(dest.alloc, dest.off, obits // 8, d)
            return
        if k == "len":
            pr = self.eval_place(st, fr, rv["p"])
            t = prog.types[pr.ty]
            n = t["len"] if t["k"] == "array" else pr.meta
            st.write_scalar(dest.alloc, dest.off, 8, n)
            return
        if k == "repeat":
            blob, et = self.eval_operand(st, fr, rv["o"])
            n = rv["n"]
            es = prog.size(et) if et is not None else 0
            out = []
            for i in range(n):
                out.extend((i * es + r, s, v) for (r, s, v) in blob)
            self.write_place_blob(st, dest, out)
            return
        if k == "tlref":
            sid = rv["static"]
            key = (st.thread, sid)
            aid = st.tls.get(key)
            if aid is None:
                s = prog.statics[sid]
                aid = self.alloc_from_const(st, s["alloc"], "tls", s["name"])
                st.tls[key] = aid
            st.write_scalar(dest.alloc, dest.off, 8, Ptr(aid, 0))
            return
        raise Unsupported("rvalue %s" % k)

    def eval_cast(self, st, fr, rv, dest):
        prog = self.prog
        ck = rv["ck"]
        to = rv["to"]
        if ck in ("transmute", "subtype", "mut2const", "array2ptr", "unsafe_fnptr"):
            blob, _ = self.eval_operand(st, fr, rv["o"])
            self.write_place_blob(st, dest, blob)
            return
        if ck == "ptr2ptr" or ck == "fnptr2ptr":
            blob, frm = self.eval_operand(st, fr, rv["o"])
            if prog.is_fat_ptr(to):
                self.write_place_blob(st, dest, blob)
            else:
                out = [(r, s, v) for (r, s, v) in blob if r < 8]
                self.write_place_blob(st, dest, out)
            return
        if ck == "int2int":
            a, ta = self.eval_scalar(st, fr, rv["o"])
            fb, fs = self.ty_bits(ta)
            tb, _ = self.ty_bits(to)
            if isinstance(a, Ptr):
                a = st.addr(a)
            st.write_scalar(dest.alloc, dest.off, tb // 8, self.int_cast(a, fb, fs, tb))
            return
        if ck == "expose":
            a, ta = self.eval_scalar(st, fr, rv["o"])
            if isinstance(a, Ptr):
                a = st.addr(a)
            elif isinstance(a, (FnPtrV, VT)):
                raise Unsupported("exposing function pointer address")
            st.write_scalar(dest.alloc, dest.off, 8, a)
            return
        if ck == "from_exposed":
            a, ta = self.eval_scalar(st, fr, rv["o"])
            if not isinstance(a, Ptr):
                av = self.concretize(st, a)
                p = st.find_alloc_by_addr(av) if av >= 0x100000 else None
                a = p if p is not None else av
            st.write_scalar(dest.alloc, dest.off, 8, a)
            return
        if ck == "unsize":
            blob, frm = self.eval_operand(st, fr, rv["o"])
            p = None
            for (r, s, v) in blob:
                if r == 0:
                    p = v
            if "vtable" in rv:
                meta = VT(rv["vtable"])
            elif rv.get("len") is not None:
                meta = rv["len"]
            else:
                # already unsized (e.g. dyn -> dyn): keep
                self.write_place_blob(st, dest, blob)
                return
            self.write_place_blob(st, dest, [(0, 8, p), (8, 8, meta)])
            return
        if ck in ("reify", "closure_fnptr"):
            if "fn" not in rv:
                raise Unsupported("unresolved fn pointer cast")
            st.write_scalar(dest.alloc, dest.off, 8, FnPtrV(rv["fn"]))
            return
        raise Unsupported("cast %s" % ck)

    # =====================================================================================
    # vtables
    # =====================================================================================
    def vtable_size_align(self, vt):
        if vt.id == PAYLOAD_VT:
            return 1, 1
        v = self.prog.vtables[vt.id]
        t = self.prog.types[v["ty"]]
        return t["size"], t.get("align") or 1

    def vtable_entry(self, vt, idx):
        if vt.id == PAYLOAD_VT:
            return "drop_empty" if idx == 0 else None
        return self.prog.vtables[vt.id]["entries"][idx]

    # =====================================================================================
    # calls, frames, unwinding
    # =====================================================================================
    def push_frame(self, st, fnid, args, dest, target):
        fn = self.prog.fns[fnid]
        body = fn["body"]
        if body is None:
            raise Unsupported("call of body-less function %s" % fn["name"])
        if len(st.frames) > 400:
            raise Unsupported("call depth > 400")
        fr = Frame(fn, body)
        fr.ret_dest = dest
        fr.ret_target = target
        argc = body["argc"]
        args = self.match_args(fn, body, list(args))
        st.frames.append(fr)
        for i, (blob, _t) in enumerate(args):
            lt = body["locals"][i + 1]
            size = self.prog.types[lt].get("size")
            if size:
                a = self.local_alloc(st, fr, i + 1)
                st.write_blob(a, 0, size, blob)
        self.fns_executed.add(fnid)

    def tuple_args(self, tt, parts):
        """build a tuple blob of type tt from argument blobs"""
        out = []
        for i, (blob, _t) in enumerate(parts):
            fo = self.prog.field_offset(tt, i)
            out.extend((fo + r, s, v) for (r, s, v) in blob)
        return (out, tt)

    def untuple_arg(self, arg):
        tt = arg[1]
        fields = self.prog.types[tt]["fields"]
        blob = arg[0]
        spread = []
        for i, ft in enumerate(fields):
            fo = self.prog.field_offset(tt, i)
            fs = self.prog.size(ft)
            spread.append(([(r - fo, s, v) for (r, s, v) in blob if fo <= r < fo + fs], ft))
        return spread

    def match_args(self, fn, body, args):
        prog = self.prog
        argc = body["argc"]
        spread = body.get("spread")
        if spread is None:
            if len(args) == argc:
                return args
            if args and args[-1][1] is not None and prog.kind(args[-1][1]) == "tuple":
                un = args[:-1] + self.untuple_arg(args[-1])
                if len(un) == argc:
                    return un
            raise Unsupported("argument count mismatch calling %s: %d vs %d" % (fn["name"][:100], len(args), argc))
        tt = body["locals"][spread]
        n = len(prog.types[tt]["fields"])
        if len(args) == argc and args[-1][1] == tt:
            return args
        if len(args) == argc - 1 + n:
            k = argc - 1
            return args[:k] + [self.tuple_args(tt, args[k:])]
        if argc == 2 and len(args) == n and (prog.types[body["locals"][1]].get("size") == 0):
            return [([], body["locals"][1]), self.tuple_args(tt, args)]
        raise Unsupported("argument count mismatch (spread) calling %s: %d vs %d" % (fn["name"][:100], len(args), argc))

    def pop_frame(self, st):
        fr = st.frames.pop()
        if isinstance(fr, Frame):
            for a in fr.locals:
                if a is not None:
                    st.mem.pop(a, None)
        return fr

    def goto(self, st, bb):
        fr = st.frames[-1]
        fr.bb = bb
        fr.si = 0

    def do_return(self, st):
        fr = st.frames[-1]
        ret_blob = None
        if fr.ret_dest is not None:
            rt = fr.body["locals"][0]
            size = self.prog.types[rt].get("size") or 0
            if size:
                a = fr.locals[0]
                if a is None:
                    ret_blob = []
                else:
                    ret_blob = st.read_blob(a, 0, size)
        self.pop_frame(st)
        if not st.frames:
            raise PathEnd("return")
        self.finish_call(st, fr.ret_dest, fr.ret_target, ret_blob)

    def finish_call(self, st, dest, target, ret_blob):
        """control returns to the frame now on top (a Frame or a CatchFrame)"""
        top = st.frames[-1]
        if isinstance(top, ScriptFrame):
            if ret_blob:
                v = ret_blob[0][2]
                if not isinstance(v, int):
                    v = self.concretize(st, v)
                if v != 0:
                    top.acc = 1
                    if top.on_err is not None:
                        st.write_scalar(top.on_err[0], top.on_err[1], 1, 1)
                    if top.final_from_acc:
                        top.pending = []  # as in core: members after a failure are not formatted
            if top.pending:
                fnid, args = top.pending.pop(0)
                self.call_fn(st, fnid, args, SCRIPT_DEST, None)
                return
            st.frames.pop()
            final = [(0, 1, top.acc)] if top.final_from_acc else top.final
            if top.dest is not None and final is not None:
                self.write_place_blob(st, top.dest, final)
            if top.target is None:
                raise PathEnd("engine-error", "script summary without target")
            self.goto(st, top.target)
            return
        if isinstance(top, ThreadFrame):
            st.frames.pop()
            st.thread = top.prev_thread
            if top.target is None:
                raise PathEnd("engine-error", "on_thread without target")
            self.goto(st, top.target)
            return
        if isinstance(top, CatchFrame):
            cf = top
            st.frames.pop()
            res = 0 if cf.phase == "try" else 1
            if cf.dest is not None:
                st.write_scalar(cf.dest.alloc, cf.dest.off, 4, res)
            if cf.target is None:
                raise PathEnd("engine-error", "catch_unwind without target")
            self.goto(st, cf.target)
            return
        if dest is not None and ret_blob is not None:
            self.write_place_blob(st, dest, ret_blob)
        if target is None:
            raise PathEnd("engine-error", "return from a diverging call")
        self.goto(st, target)

    def start_panic(self, st, what="panic"):
        """a panic starts at the current terminator of the top frame"""
        st.panic_count += 1
        # exceptions in flight form a stack: a destructor running during an unwind may raise and catch its own
        st.exc = (st.exc or ()) + ([(0, 8, self.new_payload(st)), (8, 8, VT(PAYLOAD_VT))],)
        st.unwinding = True
        st.trace.append(("panic", what))
        self.unwind(st)

    def new_payload(self, st):
        aid = st.new_alloc(1, 1, "heap", "panic payload")
        return Ptr(aid, 0)

    def unwind(self, st):
        """propagate an unwind starting at the current terminator of the top frame"""
        while True:
            if not st.frames:
                raise PathEnd("unwound")
            fr = st.frames[-1]
            if isinstance(fr, ScriptFrame):
                st.frames.pop()
                continue
            if isinstance(fr, ThreadFrame):
                # a panic ends the other thread; the spawner observes it at join (not modelled further)
                raise PathEnd("unwound", "panic escaped a modelled second thread")
            if isinstance(fr, CatchFrame):
                if fr.phase == "try":
                    fr.phase = "catch"
                    st.unwinding = False
                    fnid = fr.catch_fn
                    self.push_frame(st, fnid, [(fr.data, None), ([(0, 8, 0xE0E0)], None)], None, None)
                    return
                st.frames.pop()
                continue
            term = fr.body["blocks"][fr.bb]["t"]
            u = term.get("u", "continue")
            if u == "continue":
                self.pop_frame(st)
                continue
            if u == "terminate":
                raise PathEnd("abort", "unwinding reached a frame that cannot unwind (%s at %s)" % (fr.fn["name"][:80], term.get("span")))
            if u == "unreachable":
                raise PathEnd("engine-error", "unwind marked unreachable in %s" % fr.fn["name"][:80])
            fr.bb = u[1]
            fr.si = 0
            fr.cleanup = True
            return

    def summary_for(self, fn):
        fid = fn["id"]
        r = self._sumcache.get(fid, 0)
        if r != 0:
            return r
        name = fn["name"]
        base = re.sub(r"::<.*$", "", name)
        r = self.summaries.get(base)
        if r is None and fn.get("intrinsic"):
            r = self.intrinsics.get(fn["intrinsic"])
        if r is None:
            for pat, f in self.summaries.items():
                if pat.endswith("*") and base.startswith(pat[:-1]):
                    r = f
                    break
        if r is None and fn["body"] is None:
            for pat, f in self.summaries_contains:
                if pat in name:
                    r = f
                    break
        self._sumcache[fid] = r
        return r

    def call_fn(self, st, fnid, args, dest, target, term=None):
        fn = self.prog.fns[fnid]
        s = self.summary_for(fn)
        if s is not None:
            self.summaries_used.add(re.sub(r"::<.*$", "", fn["name"]))
            s(self, st, fn, args, dest, target)
            return
        if fn["kind"] == "virtual":
            raise Unsupported("unresolved virtual call %s" % fn["name"])
        if fn["body"] is None:
            raise Unsupported("no body and no summary for %s" % fn["name"])
        self.push_frame(st, fnid, args, dest, target)

    def ret_scalar(self, st, dest, target, val, size):
        """helper for summaries: write a scalar result and continue"""
        if dest is not None and dest is not SCRIPT_DEST and size:
            st.write_scalar(dest.alloc, dest.off, size, val)
        if target is None:
            if st.frames and not isinstance(st.frames[-1], Frame):
                self.finish_call(st, None, None, [(0, size, val)] if size else None)
                return
            raise PathEnd("engine-error", "summary returned into diverging call")
        self.goto(st, target)

    def ret_blob(self, st, dest, target, blob):
        if dest is not None and dest is not SCRIPT_DEST:
            self.write_place_blob(st, dest, blob)
        if target is None:
            if st.frames and not isinstance(st.frames[-1], Frame):
                self.finish_call(st, None, None, blob)
                return
            raise PathEnd("engine-error", "summary returned into diverging call")
        self.goto(st, target)

    def run_script(self, st, calls, final, dest, target, on_err=None, final_from_acc=False):
        """summary helper: perform calls [(fnid, args)] in order, then return `final` (a blob) to dest"""
        st.frames.append(ScriptFrame(list(calls), final, dest, target, on_err, final_from_acc))
        self.finish_call(st, None, None, None)

    # =====================================================================================
    # stepping
    # =====================================================================================
    def step(self, st):
        """executes one statement or terminator; returns a list of forked states (or None)"""
        fr = st.frames[-1]
        st.steps += 1
        if st.steps > self.max_steps:
            raise PathEnd("budget", "step budget exceeded")
        blk = fr.body["blocks"][fr.bb]
        stmts = blk["s"]
        if fr.si < len(stmts):
            s = stmts[fr.si]
            k = s[0]
            if k == "assign":
                rv = s[2]
                dest = self.eval_place(st, fr, s[1])
                self.eval_rvalue(st, fr, rv, dest)
            elif k == "live":
                pass
            elif k == "dead":
                a = fr.locals[s[1]]
                if a is not None:
                    st.mem.pop(a, None)
                    fr.locals[s[1]] = None
            elif k == "setdiscr":
                pr = self.eval_place(st, fr, s[1])
                self.write_discriminant(st, pr, s[2])
            elif k == "assume":
                v, _ = self.eval_scalar(st, fr, s[1])
                c = truth(v)
                if c is False:
                    raise PathEnd("memory-error", "intrinsic assume(false)")
                if c is not True:
                    st.add_constraint(c)
            elif k == "copy_nonoverlapping":
                src, ts = self.eval_scalar(st, fr, s[1])
                dst, td = self.eval_scalar(st, fr, s[2])
                cnt, _ = self.eval_scalar(st, fr, s[3])
                cnt = self.concretize(st, cnt)
                n = cnt * self.ptr_elem_size(ts)
                self.memcpy(st, dst, src, n)
            elif k == "nop":
                pass
            else:
                raise Unsupported("statement %s" % k)
            fr.si += 1
            return None
        return self.exec_terminator(st, fr, blk["t"])

    def memcpy(self, st, dst, src, n):
        if n == 0:
            return
        if not isinstance(src, Ptr) or not isinstance(dst, Ptr):
            raise PathEnd("memory-error", "memcpy through integer pointer")
        blob = st.read_blob(src.alloc, src.off, n)
        st.write_blob(dst.alloc, dst.off, n, blob)

    def fork_on(self, st, alternatives):
        """alternatives: list of (condition (z3 Bool or True), action(state)).  The feasible ones are
        executed, each on its own copy of the state.  Returns the extra states."""
        feas = []
        for cond, act in alternatives:
            if cond is True:
                feas.append((cond, act))
            elif cond is False:
                continue
            elif self.check(st, cond):
                feas.append((cond, act))
        if not feas:
            raise PathEnd("infeasible", "no feasible successor")
        extra = []
        states = [st] + [st.clone() for _ in feas[1:]]
        if len(feas) > 1:
            self.stats["forks"] += len(feas) - 1
        for (cond, act), s in zip(feas, states):
            if cond is not True:
                s.add_constraint(cond)
            if s is st:
                continue
            try:
                act(s)
                extra.append(s)
            except PathEnd as e:
                s.outcome = e.outcome
                s.detail = e.detail
                extra.append(s)
            except Unsupported as e:
                s.outcome = "unsupported"
                s.detail = str(e)
                extra.append(s)
        feas[0][1](st)
        return extra

    def exec_terminator(self, st, fr, t):
        k = t["k"]
        if k == "goto":
            fr.bb = t["t"]
            fr.si = 0
            return None
        if k == "return":
            self.do_return(st)
            return None
        if k == "switch":
            d, dt = self.eval_scalar(st, fr, t["d"])
            if isinstance(d, Ptr):
                d = st.addr(d)
            if isinstance(d, int):
                for val, bb in t["br"]:
                    if int(val) == d:
                        fr.bb = bb
                        fr.si = 0
                        return None
                fr.bb = t["o"]
                fr.si = 0
                return None
            bits = d.size()
            alts = []
            others = []
            for val, bb in t["br"]:
                c = d == z3.BitVecVal(int(val), bits)
                others.append(d != z3.BitVecVal(int(val), bits))
                alts.append((c, (lambda s, bb=bb: self.goto(s, bb))))
            alts.append((z3.And(*others) if len(others) > 1 else others[0], (lambda s, bb=t["o"]: self.goto(s, bb))))
            return self.fork_on(st, alts)
        if k == "call":
            return self.exec_call(st, fr, t)
        if k == "drop":
            fnid = t["fn"]
            if fnid is None:
                fr.bb = t["t"]
                fr.si = 0
                return None
            pr = self.eval_place(st, fr, t["p"])
            fn = self.prog.fns[fnid]
            arg = (self.place_ptr_blob(st, pr), None)
            if fn["kind"] == "virtual" or self.prog.kind(pr.ty) == "dyn":
                if not isinstance(pr.meta, VT):
                    raise Unsupported("virtual drop without vtable")
                e = self.vtable_entry(pr.meta, 0)
                if e == "drop_empty":
                    fr.bb = t["t"]
                    fr.si = 0
                    return None
                arg = ([(0, 8, arg[0][0][2])], None)
                fnid = e
            self.call_fn(st, fnid, [arg], None, t["t"])
            return None
        if k == "assert":
            c, _ = self.eval_scalar(st, fr, t["c"])
            exp = t["e"]
            cond = truth(c)
            if cond is True or cond is False:
                if cond == exp:
                    fr.bb = t["t"]
                    fr.si = 0
                else:
                    self.start_panic(st, "assert: " + t["msg"])
                return None
            ok = cond if exp else z3.Not(cond)
            return self.fork_on(st, [
                (ok, lambda s, bb=t["t"]: self.goto(s, bb)),
                (z3.Not(ok), lambda s, m=t["msg"]: self.start_panic(s, "assert: " + m)),
            ])
        if k == "resume":
            self.pop_frame(st)
            self.unwind(st)
            return None
        if k == "unreachable":
            raise PathEnd("memory-error", "reached unreachable in %s (%s)" % (fr.fn["name"][:100], t.get("span")))
        if k == "abort":
            raise PathEnd("abort", "abort terminator")
        raise Unsupported("terminator %s" % k)

    def exec_call(self, st, fr, t):
        f = t["f"]
        fk = f["k"]
        args = [self.eval_operand(st, fr, a) for a in t["a"]]
        dest = self.eval_place(st, fr, t["d"]) if t["t"] is not None else None
        target = t["t"]
        if fk == "fn":
            self.call_fn(st, f["fn"], args, dest, target, t)
            return None
        if fk == "intrinsic":
            name = f["name"]
            impl = self.intrinsics.get(name)
            if impl is not None:
                self.summaries_used.add("intrinsic:" + name)
                return impl(self, st, self.prog.fns[f["fn"]], args, dest, target)
            fn = self.prog.fns[f["fn"]]
            if fn["body"] is not None:
                self.push_frame(st, f["fn"], args, dest, target)
                return None
            raise Unsupported("intrinsic %s" % name)
        if fk == "virtual":
            blob = args[0][0]
            vt = None
            p = None
            for (r, s, v) in blob:
                if r == 8:
                    vt = v
                elif r == 0:
                    p = v
            if not isinstance(vt, VT):
                raise Unsupported("virtual call without vtable (%r)" % (vt,))
            e = self.vtable_entry(vt, f["idx"])
            if not isinstance(e, int):
                raise Unsupported("vtable entry %r" % (e,))
            args = [([(0, 8, p)], None)] + args[1:]
            self.call_fn(st, e, args, dest, target, t)
            return None
        if fk == "ptr":
            v, _ = self.eval_scalar(st, fr, f["op"])
            if not isinstance(v, FnPtrV):
                raise Unsupported("call through non-function pointer %r" % (v,))
            self.call_fn(st, v.fn, args, dest, target, t)
            return None
        raise Unsupported("call kind %s (%s)" % (fk, f.get("what")))

    # =====================================================================================
    # exploration
    # =====================================================================================
    def init_state(self, entry):
        st = State(self.prog)
        fnid = self.prog.entries[entry]
        fn = self.prog.fns[fnid]
        fr = Frame(fn, fn["body"])
        st.frames.append(fr)
        self.fns_executed.add(fnid)
        return st

    def explore(self, entry, on_done=None, deadline=None):
        """runs all paths of an entry point; returns list of finished states"""
        work = [self.init_state(entry)]
        done = []
        while work:
            st = work.pop()
            if st.outcome is not None:
                self._finish(st, done, on_done)
                continue
            try:
                while True:
                    try:
                        extra = self.step(st)
                    except Concretize as c:
                        vals = self.feasible_values(st, c.expr)
                        if not vals:
                            raise PathEnd("infeasible", "no value for concretised expression")
                        states = [st] + [st.clone() for _ in vals[1:]]
                        self.stats["forks"] += len(vals) - 1
                        for v, s in zip(vals, states):
                            s.add_constraint(c.expr == v)
                            s.known[c.expr.get_id()] = (c.expr, v)
                            if s is not st:
                                work.append(s)
                        continue
                    if extra:
                        work.extend(extra)
                    if deadline is not None and (st.steps & 0xFFF) == 0 and time.time() > deadline:
                        raise PathEnd("timeout", "wall clock deadline")
            except PathEnd as e:
                st.outcome = e.outcome
                st.detail = e.detail
            except Unsupported as e:
                st.outcome = "unsupported"
                st.detail = str(e)
            self._finish(st, done, on_done)
            if self.stats["paths"] > self.max_paths:
                raise Unsupported("more than %d paths" % self.max_paths)
        return done

    def _finish(self, st, done, on_done):
        self.stats["paths"] += 1
        self.stats["steps"] += st.steps
        if st.outcome in ("unsupported", "memory-error", "engine-error") and st.frames:
            locs = []
            for fr in reversed(st.frames):
                if isinstance(fr, Frame):
                    locs.append("%s bb%d/%d" % (fr.fn["name"][:110], fr.bb, fr.si))
                if len(locs) >= 3:
                    break
            st.detail = "%s [in %s]" % (st.detail, " <- ".join(locs))
        if on_done is not None:
            on_done(st)
            return
        st.mem = None
        st.frames = None
        done.append(st)
