//! mirdump: a rustc driver (used as RUSTC_WRAPPER) that dumps the monomorphic MIR of everything
//! reachable from the `verif_harness` entry points of the scratch copy of happylock as JSON.
//! Trait resolution, monomorphisation, drop glue, closure shims, vtables, layouts and constant
//! evaluation are all done by rustc (rustc_public); this program only serialises.
#![feature(rustc_private)]
#![allow(clippy::all)]

extern crate rustc_driver;
extern crate rustc_interface;
extern crate rustc_middle;
extern crate rustc_public;
extern crate rustc_public_bridge;
extern crate serde_json;

use std::collections::{HashMap, VecDeque};
use std::ops::ControlFlow;

use rustc_public::abi::{FieldsShape, LayoutShape, Primitive, Scalar, TagEncoding, ValueAbi, VariantsShape};
use rustc_public::mir::alloc::{AllocId, GlobalAlloc};
use rustc_public::mir::mono::{Instance, InstanceKind, StaticDef};
use rustc_public::mir::{
	AggregateKind, BasicBlock, Body, BorrowKind, CastKind, ConstOperand, Mutability, NonDivergingIntrinsic, Operand,
	Place, PointerCoercion, ProjectionElem, RawPtrKind, Rvalue, Statement, StatementKind, Terminator, TerminatorKind,
	UnwindAction,
};
use rustc_public::ty::{
	AdtKind, Allocation, ClosureKind, ConstantKind, GenericArgKind, IntTy, MirConst, RigidTy, Span, Ty, TyConstKind,
	TyKind, UintTy, VtblEntry,
};
use rustc_public::{CrateDef, CrateItem, ItemKind};
use rustc_public_bridge::IndexedVal;
use serde_json::{json, Value};

struct Ctx {
	ty_ids: HashMap<Ty, usize>,
	types: Vec<Value>,
	fn_ids: HashMap<Instance, usize>,
	fns: Vec<Value>,
	queue: VecDeque<(usize, Instance)>,
	alloc_ids: HashMap<AllocId, usize>,
	allocs: Vec<Value>,
	static_ids: HashMap<StaticDef, usize>,
	statics: Vec<Value>,
	vtable_ids: HashMap<String, usize>,
	vtables: Vec<Value>,
	local_prefix: String,
	notes: Vec<String>,
	skip: Vec<String>,
}

fn int_bits(t: &IntTy) -> u64 {
	match t {
		IntTy::Isize => 64,
		IntTy::I8 => 8,
		IntTy::I16 => 16,
		IntTy::I32 => 32,
		IntTy::I64 => 64,
		IntTy::I128 => 128,
	}
}
fn uint_bits(t: &UintTy) -> u64 {
	match t {
		UintTy::Usize => 64,
		UintTy::U8 => 8,
		UintTy::U16 => 16,
		UintTy::U32 => 32,
		UintTy::U64 => 64,
		UintTy::U128 => 128,
	}
}

fn u128v(v: u128) -> Value {
	if v <= u64::MAX as u128 {
		json!(v as u64)
	} else {
		json!(v.to_string())
	}
}

impl Ctx {
	fn span_str(&self, sp: &Span) -> String {
		let f = sp.get_filename();
		let l = sp.get_lines();
		format!("{}:{}", f, l.start_line)
	}

	fn scalar(&self, s: &Scalar) -> Value {
		let (prim, range) = match s {
			Scalar::Initialized { value, valid_range } => (value, Some(valid_range)),
			Scalar::Union { value } => (value, None),
		};
		let (bits, signed, ptr) = match prim {
			Primitive::Int { length, signed } => (length.bits() as u64, *signed, false),
			Primitive::Float { length } => (length.bits() as u64, false, false),
			Primitive::Pointer(_) => (64, false, true),
		};
		json!({"bits": bits, "signed": signed, "ptr": ptr,
			"valid": range.map(|r| json!([u128v(r.start), u128v(r.end)]))})
	}

	fn layout_json(&self, shape: &LayoutShape) -> Value {
		let fields = match &shape.fields {
			FieldsShape::Primitive => json!({"k": "prim"}),
			FieldsShape::Union(n) => json!({"k": "union", "n": n.get()}),
			FieldsShape::Array { stride, count } => json!({"k": "array", "stride": stride.bytes(), "count": count}),
			FieldsShape::Arbitrary { offsets } => {
				json!({"k": "arb", "offsets": offsets.iter().map(|o| o.bytes()).collect::<Vec<_>>()})
			}
		};
		let variants = match &shape.variants {
			VariantsShape::Empty => json!({"k": "empty"}),
			VariantsShape::Single { index } => json!({"k": "single", "index": index.to_index()}),
			VariantsShape::Multiple { tag, tag_encoding, tag_field, variants } => {
				let enc = match tag_encoding {
					TagEncoding::Direct => json!({"k": "direct"}),
					TagEncoding::Niche { untagged_variant, niche_variants, niche_start } => json!({
						"k": "niche", "untagged": untagged_variant.to_index(),
						"start": niche_variants.start().to_index(), "end": niche_variants.end().to_index(),
						"niche_start": u128v(*niche_start)}),
				};
				json!({"k": "multiple", "tag": self.scalar(tag), "tag_field": tag_field, "encoding": enc,
					"variants": variants.iter().map(|v| v.offsets.iter().map(|o| o.bytes()).collect::<Vec<_>>()).collect::<Vec<_>>()})
			}
		};
		let abi = match &shape.abi {
			ValueAbi::Scalar(s) => json!({"k": "scalar", "s": self.scalar(s)}),
			ValueAbi::ScalarPair(a, b) => json!({"k": "pair", "a": self.scalar(a), "b": self.scalar(b)}),
			ValueAbi::Aggregate { sized } => json!({"k": "agg", "sized": sized}),
			_ => json!({"k": "vector"}),
		};
		json!({"fields": fields, "variants": variants, "abi": abi})
	}

	fn ty_id(&mut self, ty: Ty) -> usize {
		if let Some(id) = self.ty_ids.get(&ty) {
			return *id;
		}
		let id = self.types.len();
		self.ty_ids.insert(ty, id);
		self.types.push(Value::Null);
		let mut v = serde_json::Map::new();
		v.insert("name".into(), json!(format!("{}", ty)));
		if let Ok(l) = ty.layout() {
			let shape = l.shape();
			if shape.is_sized() {
				v.insert("size".into(), json!(shape.size.bytes()));
			} else {
				v.insert("size".into(), Value::Null);
			}
			v.insert("align".into(), json!(shape.abi_align));
			v.insert("layout".into(), self.layout_json(&shape));
		} else {
			v.insert("size".into(), Value::Null);
		}
		match ty.kind() {
			TyKind::RigidTy(r) => match r {
				RigidTy::Bool => {
					v.insert("k".into(), json!("bool"));
				}
				RigidTy::Char => {
					v.insert("k".into(), json!("char"));
				}
				RigidTy::Int(t) => {
					v.insert("k".into(), json!("int"));
					v.insert("bits".into(), json!(int_bits(&t)));
					v.insert("signed".into(), json!(true));
				}
				RigidTy::Uint(t) => {
					v.insert("k".into(), json!("int"));
					v.insert("bits".into(), json!(uint_bits(&t)));
					v.insert("signed".into(), json!(false));
				}
				RigidTy::Float(_) => {
					v.insert("k".into(), json!("float"));
				}
				RigidTy::Adt(def, args) => {
					v.insert("k".into(), json!("adt"));
					let kind = match def.kind() {
						AdtKind::Struct => "struct",
						AdtKind::Enum => "enum",
						AdtKind::Union => "union",
					};
					v.insert("adt".into(), json!(kind));
					v.insert("def_name".into(), json!(def.name()));
					v.insert("is_box".into(), json!(def.is_box()));
					let mut targs = vec![];
					for a in &args.0 {
						if let GenericArgKind::Type(t) = a {
							targs.push(self.ty_id(*t));
						}
					}
					v.insert("targs".into(), json!(targs));
					let mut vars = vec![];
					for (vi, var) in def.variants_iter().enumerate() {
						let mut fields = vec![];
						for f in var.fields() {
							let fty = f.ty_with_args(&args);
							fields.push(json!({"name": f.name, "ty": self.ty_id(fty)}));
						}
						let discr = if def.kind() == AdtKind::Enum {
							let d = def.discriminant_for_variant(rustc_public::ty::VariantIdx::to_val(vi));
							u128v(d.val)
						} else {
							Value::Null
						};
						vars.push(json!({"name": var.name(), "fields": fields, "discr": discr}));
					}
					v.insert("variants".into(), json!(vars));
				}
				RigidTy::Tuple(tys) => {
					v.insert("k".into(), json!("tuple"));
					let f: Vec<usize> = tys.iter().map(|t| self.ty_id(*t)).collect();
					v.insert("fields".into(), json!(f));
				}
				RigidTy::Closure(def, args) => {
					v.insert("k".into(), json!("closure"));
					v.insert("def_name".into(), json!(def.name()));
					let mut up = vec![];
					if let Some(GenericArgKind::Type(t)) = args.0.last() {
						if let TyKind::RigidTy(RigidTy::Tuple(tys)) = t.kind() {
							for t in tys {
								up.push(self.ty_id(t));
							}
						}
					}
					v.insert("fields".into(), json!(up));
				}
				RigidTy::Ref(_, p, m) => {
					v.insert("k".into(), json!("ref"));
					v.insert("pointee".into(), json!(self.ty_id(p)));
					v.insert("mut".into(), json!(m == Mutability::Mut));
				}
				RigidTy::RawPtr(p, m) => {
					v.insert("k".into(), json!("ptr"));
					v.insert("pointee".into(), json!(self.ty_id(p)));
					v.insert("mut".into(), json!(m == Mutability::Mut));
				}
				RigidTy::Array(e, n) => {
					v.insert("k".into(), json!("array"));
					v.insert("elem".into(), json!(self.ty_id(e)));
					v.insert("len".into(), json!(n.eval_target_usize().ok()));
				}
				RigidTy::Slice(e) => {
					v.insert("k".into(), json!("slice"));
					v.insert("elem".into(), json!(self.ty_id(e)));
				}
				RigidTy::Str => {
					v.insert("k".into(), json!("str"));
				}
				RigidTy::Dynamic(preds, _) => {
					v.insert("k".into(), json!("dyn"));
					v.insert("preds".into(), json!(format!("{:?}", preds.len())));
				}
				RigidTy::FnDef(def, _) => {
					v.insert("k".into(), json!("fndef"));
					v.insert("def_name".into(), json!(def.name()));
				}
				RigidTy::FnPtr(_) => {
					v.insert("k".into(), json!("fnptr"));
				}
				RigidTy::Never => {
					v.insert("k".into(), json!("never"));
				}
				RigidTy::Foreign(_) => {
					v.insert("k".into(), json!("foreign"));
				}
				RigidTy::Pat(inner, _) => {
					v.insert("k".into(), json!("pat"));
					v.insert("inner".into(), json!(self.ty_id(inner)));
				}
				_ => {
					v.insert("k".into(), json!("other"));
				}
			},
			_ => {
				v.insert("k".into(), json!("nonrigid"));
			}
		}
		self.types[id] = Value::Object(v);
		id
	}

	fn fn_id(&mut self, inst: Instance) -> usize {
		if let Some(id) = self.fn_ids.get(&inst) {
			return *id;
		}
		let id = self.fns.len();
		self.fn_ids.insert(inst, id);
		self.fns.push(Value::Null);
		self.queue.push_back((id, inst));
		id
	}

	fn static_id(&mut self, s: StaticDef) -> usize {
		if let Some(id) = self.static_ids.get(&s) {
			return *id;
		}
		let id = self.statics.len();
		self.static_ids.insert(s, id);
		self.statics.push(Value::Null);
		let ty = self.ty_id(s.ty());
		let alloc = match s.eval_initializer() {
			Ok(a) => self.alloc_json(&a),
			Err(e) => {
				self.notes.push(format!("static {} init failed: {:?}", s.name(), e));
				Value::Null
			}
		};
		self.statics[id] = json!({"name": s.name(), "ty": ty, "alloc": alloc});
		id
	}

	fn vtable_id(&mut self, ty: Ty, tr: Option<rustc_public::ty::Binder<rustc_public::ty::ExistentialTraitRef>>) -> usize {
		let key = format!("{}|{:?}", ty, tr.as_ref().map(|t| t.value.def_id.name()));
		if let Some(id) = self.vtable_ids.get(&key) {
			return *id;
		}
		let id = self.vtables.len();
		self.vtable_ids.insert(key.clone(), id);
		self.vtables.push(Value::Null);
		let tyid = self.ty_id(ty);
		let mut entries = vec![];
		if let Some(tr) = tr {
			let tref = tr.skip_binder().with_self_ty(ty);
			let ents = match std::panic::catch_unwind(std::panic::AssertUnwindSafe(|| tref.vtable_entries())) {
				Ok(e) => e,
				Err(_) => {
					self.notes.push(format!("vtable_entries panicked for {}", key));
					vec![]
				}
			};
			for e in ents {
				match e {
					VtblEntry::Method(inst) => entries.push(json!(self.fn_id(inst))),
					VtblEntry::MetadataDropInPlace => {
						let d = Instance::resolve_drop_in_place(ty);
						if d.is_empty_shim() {
							entries.push(json!("drop_empty"));
						} else {
							entries.push(json!(self.fn_id(d)));
						}
					}
					VtblEntry::MetadataSize => entries.push(json!("size")),
					VtblEntry::MetadataAlign => entries.push(json!("align")),
					VtblEntry::Vacant => entries.push(json!("vacant")),
					VtblEntry::TraitVPtr(_) => entries.push(json!("vptr")),
				}
			}
		} else {
			let d = Instance::resolve_drop_in_place(ty);
			if d.is_empty_shim() {
				entries.push(json!("drop_empty"));
			} else {
				entries.push(json!(self.fn_id(d)));
			}
			entries.push(json!("size"));
			entries.push(json!("align"));
		}
		self.vtables[id] = json!({"key": key, "ty": tyid, "entries": entries});
		id
	}

	fn prov_target(&mut self, aid: AllocId) -> Value {
		match GlobalAlloc::from(aid) {
			GlobalAlloc::Function(inst) => json!({"k": "fn", "fn": self.fn_id(inst)}),
			GlobalAlloc::VTable(ty, tr) => json!({"k": "vtable", "id": self.vtable_id(ty, tr)}),
			GlobalAlloc::Static(s) => json!({"k": "static", "id": self.static_id(s)}),
			GlobalAlloc::Memory(a) => {
				if let Some(id) = self.alloc_ids.get(&aid) {
					return json!({"k": "mem", "id": id});
				}
				let id = self.allocs.len();
				self.alloc_ids.insert(aid, id);
				self.allocs.push(Value::Null);
				let j = self.alloc_json(&a);
				self.allocs[id] = j;
				json!({"k": "mem", "id": id})
			}
			GlobalAlloc::TypeId { .. } => json!({"k": "typeid"}),
		}
	}

	fn alloc_json(&mut self, a: &Allocation) -> Value {
		let bytes: Vec<Value> = a.bytes.iter().map(|b| match b {
			Some(x) => json!(x),
			None => Value::Null,
		}).collect();
		let mut prov = vec![];
		for (off, p) in &a.provenance.ptrs {
			let t = self.prov_target(p.0);
			prov.push(json!([off, t]));
		}
		json!({"bytes": bytes, "prov": prov, "align": a.align, "mut": a.mutability == Mutability::Mut})
	}

	fn place(&mut self, p: &Place) -> Value {
		let mut proj = vec![];
		for e in &p.projection {
			proj.push(match e {
				ProjectionElem::Deref => json!(["deref"]),
				ProjectionElem::Field(i, t) => json!(["field", i, self.ty_id(*t)]),
				ProjectionElem::Index(l) => json!(["index", l]),
				ProjectionElem::ConstantIndex { offset, min_length, from_end } => {
					json!(["cindex", offset, min_length, from_end])
				}
				ProjectionElem::Subslice { from, to, from_end } => json!(["subslice", from, to, from_end]),
				ProjectionElem::Downcast(v) => json!(["downcast", v.to_index()]),
				ProjectionElem::OpaqueCast(t) => json!(["opaque", self.ty_id(*t)]),
			});
		}
		json!({"l": p.local, "p": proj})
	}

	fn konst(&mut self, c: &MirConst) -> Value {
		let ty = c.ty();
		let tyid = self.ty_id(ty);
		match c.kind() {
			ConstantKind::Allocated(a) => {
				let aj = self.alloc_json(a);
				json!(["const", {"k": "bytes", "alloc": aj}, tyid])
			}
			ConstantKind::ZeroSized => {
				if let TyKind::RigidTy(RigidTy::FnDef(def, args)) = ty.kind() {
					match Instance::resolve(def, &args) {
						Ok(inst) => {
							let f = self.fn_spec(inst);
							json!(["const", {"k": "fndef", "f": f}, tyid])
						}
						Err(e) => {
							self.notes.push(format!("unresolved fndef const {:?}", e));
							json!(["const", {"k": "zst"}, tyid])
						}
					}
				} else {
					json!(["const", {"k": "zst"}, tyid])
				}
			}
			ConstantKind::Ty(tc) => match tc.kind() {
				TyConstKind::Value(_, a) => {
					let aj = self.alloc_json(a);
					json!(["const", {"k": "bytes", "alloc": aj}, tyid])
				}
				TyConstKind::ZSTValue(_) => json!(["const", {"k": "zst"}, tyid]),
				other => {
					self.notes.push(format!("tyconst {:?}", other));
					json!(["const", {"k": "unsupported", "what": format!("{:?}", other)}, tyid])
				}
			},
			other => {
				self.notes.push(format!("const kind {:?}", other));
				json!(["const", {"k": "unsupported", "what": format!("{:?}", other)}, tyid])
			}
		}
	}

	fn operand(&mut self, o: &Operand) -> Value {
		match o {
			Operand::Copy(p) => json!(["copy", self.place(p)]),
			Operand::Move(p) => json!(["move", self.place(p)]),
			Operand::Constant(ConstOperand { const_, .. }) => self.konst(const_),
			Operand::RuntimeChecks(k) => json!(["rtcheck", format!("{:?}", k)]),
		}
	}

	fn fn_spec(&mut self, inst: Instance) -> Value {
		match inst.kind {
			InstanceKind::Virtual { idx } => json!({"k": "virtual", "idx": idx, "name": inst.name()}),
			InstanceKind::Intrinsic => {
				let id = self.fn_id(inst);
				json!({"k": "intrinsic", "name": inst.intrinsic_name(), "fn": id})
			}
			_ => json!({"k": "fn", "fn": self.fn_id(inst)}),
		}
	}

	fn pointee(&self, ty: Ty) -> Option<Ty> {
		match ty.kind() {
			TyKind::RigidTy(RigidTy::Ref(_, p, _)) | TyKind::RigidTy(RigidTy::RawPtr(p, _)) => Some(p),
			TyKind::RigidTy(RigidTy::Adt(def, args)) if def.is_box() => args.0.first().and_then(|a| a.ty().copied()),
			_ => None,
		}
	}

	/// metadata produced by an unsizing coercion from pointee `sp` to pointee `dp`
	fn unsize_meta(&mut self, sp: Ty, dp: Ty, m: &mut serde_json::Map<String, Value>) {
		match (sp.kind(), dp.kind()) {
			(TyKind::RigidTy(RigidTy::Array(_, n)), TyKind::RigidTy(RigidTy::Slice(_))) => {
				m.insert("len".into(), json!(n.eval_target_usize().ok()));
			}
			(TyKind::RigidTy(RigidTy::Dynamic(..)), TyKind::RigidTy(RigidTy::Dynamic(..))) => {}
			(_, TyKind::RigidTy(RigidTy::Dynamic(..))) => {
				let tr = dp.kind().trait_principal();
				let vid = self.vtable_id(sp, tr);
				m.insert("vtable".into(), json!(vid));
			}
			(TyKind::RigidTy(RigidTy::Adt(d1, a1)), TyKind::RigidTy(RigidTy::Adt(d2, a2))) => {
				// struct with an unsized tail: the metadata is that of the last field
				let f1 = d1.variants_iter().next().and_then(|v| v.fields().last().map(|f| f.ty_with_args(&a1)));
				let f2 = d2.variants_iter().next().and_then(|v| v.fields().last().map(|f| f.ty_with_args(&a2)));
				if let (Some(t1), Some(t2)) = (f1, f2) {
					self.unsize_meta(t1, t2, m);
				}
			}
			_ => {}
		}
	}

	fn rvalue(&mut self, rv: &Rvalue, body: &Body) -> Value {
		let rty = rv.ty(body.locals()).ok().map(|t| self.ty_id(t));
		let mut v = match rv {
			Rvalue::Use(o, _) => json!({"k": "use", "o": self.operand(o)}),
			Rvalue::Ref(_, bk, p) => {
				let kind = match bk {
					BorrowKind::Shared => "shared",
					BorrowKind::Fake(_) => "fake",
					BorrowKind::Mut { .. } => "mut",
				};
				json!({"k": "ref", "p": self.place(p), "bk": kind})
			}
			Rvalue::AddressOf(m, p) => {
				json!({"k": "addrof", "p": self.place(p), "mut": matches!(m, RawPtrKind::Mut)})
			}
			Rvalue::Aggregate(ak, ops) => {
				let ops: Vec<Value> = ops.iter().map(|o| self.operand(o)).collect();
				let kind = match ak {
					AggregateKind::Array(t) => json!(["array", self.ty_id(*t)]),
					AggregateKind::Tuple => json!(["tuple"]),
					AggregateKind::Adt(_, variant, _, _, active) => json!(["adt", variant.to_index(), active]),
					AggregateKind::Closure(..) => json!(["closure"]),
					AggregateKind::RawPtr(t, m) => json!(["rawptr", self.ty_id(*t), *m == Mutability::Mut]),
					_ => json!(["unsupported"]),
				};
				json!({"k": "agg", "ak": kind, "ops": ops})
			}
			Rvalue::BinaryOp(op, a, b) => {
				json!({"k": "binop", "op": format!("{:?}", op), "a": self.operand(a), "b": self.operand(b)})
			}
			Rvalue::CheckedBinaryOp(op, a, b) => {
				json!({"k": "checked", "op": format!("{:?}", op), "a": self.operand(a), "b": self.operand(b)})
			}
			Rvalue::UnaryOp(op, a) => json!({"k": "unop", "op": format!("{:?}", op), "a": self.operand(a)}),
			Rvalue::Discriminant(p) => json!({"k": "discr", "p": self.place(p)}),
			Rvalue::Len(p) => json!({"k": "len", "p": self.place(p)}),
			Rvalue::CopyForDeref(p) => json!({"k": "use", "o": ["copy", self.place(p)]}),
			Rvalue::Repeat(o, n) => json!({"k": "repeat", "o": self.operand(o), "n": n.eval_target_usize().ok()}),
			Rvalue::ThreadLocalRef(item) => {
				let s = StaticDef::try_from(*item).ok().map(|s| self.static_id(s));
				json!({"k": "tlref", "static": s})
			}
			Rvalue::Cast(ck, o, ty) => {
				let src_ty = o.ty(body.locals()).ok();
				let mut m = serde_json::Map::new();
				m.insert("k".into(), json!("cast"));
				m.insert("o".into(), self.operand(o));
				m.insert("to".into(), json!(self.ty_id(*ty)));
				if let Some(st) = src_ty {
					m.insert("from".into(), json!(self.ty_id(st)));
				}
				let ckname = match ck {
					CastKind::PointerExposeAddress => "expose".to_string(),
					CastKind::PointerWithExposedProvenance => "from_exposed".to_string(),
					CastKind::IntToInt => "int2int".to_string(),
					CastKind::PtrToPtr => "ptr2ptr".to_string(),
					CastKind::FnPtrToPtr => "fnptr2ptr".to_string(),
					CastKind::Transmute => "transmute".to_string(),
					CastKind::Subtype => "subtype".to_string(),
					CastKind::FloatToInt | CastKind::FloatToFloat | CastKind::IntToFloat => "float".to_string(),
					CastKind::PointerCoercion(pc) => match pc {
						PointerCoercion::Unsize => {
							if let (Some(st), Some(dp)) = (src_ty, self.pointee(*ty)) {
								if let Some(sp) = self.pointee(st) {
									self.unsize_meta(sp, dp, &mut m);
								}
							}
							"unsize".to_string()
						}
						PointerCoercion::ReifyFnPointer(_) => {
							if let Some(st) = src_ty {
								if let TyKind::RigidTy(RigidTy::FnDef(def, args)) = st.kind() {
									if let Ok(inst) = Instance::resolve_for_fn_ptr(def, &args) {
										m.insert("fn".into(), json!(self.fn_id(inst)));
									}
								}
							}
							"reify".to_string()
						}
						PointerCoercion::ClosureFnPointer(_) => {
							if let Some(st) = src_ty {
								if let TyKind::RigidTy(RigidTy::Closure(def, args)) = st.kind() {
									if let Ok(inst) = Instance::resolve_closure(def, &args, ClosureKind::FnOnce) {
										m.insert("fn".into(), json!(self.fn_id(inst)));
									}
								}
							}
							"closure_fnptr".to_string()
						}
						PointerCoercion::UnsafeFnPointer => "unsafe_fnptr".to_string(),
						PointerCoercion::MutToConstPointer => "mut2const".to_string(),
						PointerCoercion::ArrayToPointer => "array2ptr".to_string(),
					},
				};
				m.insert("ck".into(), json!(ckname));
				Value::Object(m)
			}
		};
		if let Some(t) = rty {
			v.as_object_mut().unwrap().insert("ty".into(), json!(t));
		}
		v
	}

	fn unwind(&self, u: &UnwindAction) -> Value {
		match u {
			UnwindAction::Continue => json!("continue"),
			UnwindAction::Unreachable => json!("unreachable"),
			UnwindAction::Terminate => json!("terminate"),
			UnwindAction::Cleanup(bb) => json!(["cleanup", bb]),
		}
	}

	fn statement(&mut self, s: &Statement, body: &Body) -> Value {
		match &s.kind {
			StatementKind::Assign(p, rv) => json!(["assign", self.place(p), self.rvalue(rv, body)]),
			StatementKind::SetDiscriminant { place, variant_index } => {
				json!(["setdiscr", self.place(place), variant_index.to_index()])
			}
			StatementKind::StorageLive(l) => json!(["live", l]),
			StatementKind::StorageDead(l) => json!(["dead", l]),
			StatementKind::Intrinsic(NonDivergingIntrinsic::Assume(o)) => json!(["assume", self.operand(o)]),
			StatementKind::Intrinsic(NonDivergingIntrinsic::CopyNonOverlapping(c)) => {
				json!(["copy_nonoverlapping", self.operand(&c.src), self.operand(&c.dst), self.operand(&c.count)])
			}
			_ => json!(["nop"]),
		}
	}

	fn terminator(&mut self, t: &Terminator, body: &Body, local: bool) -> Value {
		let mut v = match &t.kind {
			TerminatorKind::Goto { target } => json!({"k": "goto", "t": target}),
			TerminatorKind::SwitchInt { discr, targets } => {
				let br: Vec<Value> = targets.branches().map(|(v, bb)| json!([u128v(v), bb])).collect();
				json!({"k": "switch", "d": self.operand(discr), "br": br, "o": targets.otherwise()})
			}
			TerminatorKind::Resume => json!({"k": "resume"}),
			TerminatorKind::Abort => json!({"k": "abort"}),
			TerminatorKind::Return => json!({"k": "return"}),
			TerminatorKind::Unreachable => json!({"k": "unreachable"}),
			TerminatorKind::Drop { place, target, unwind } => {
				let f = match place.ty(body.locals()) {
					Ok(ty) => {
						let inst = Instance::resolve_drop_in_place(ty);
						if inst.is_empty_shim() {
							Value::Null
						} else {
							json!(self.fn_id(inst))
						}
					}
					Err(_) => Value::Null,
				};
				json!({"k": "drop", "p": self.place(place), "t": target, "u": self.unwind(unwind), "fn": f})
			}
			TerminatorKind::Call { func, args, destination, target, unwind } => {
				let f = match func.ty(body.locals()).map(|t| t.kind()) {
					Ok(TyKind::RigidTy(RigidTy::FnDef(def, gargs))) => match Instance::resolve(def, &gargs) {
						Ok(inst) => self.fn_spec(inst),
						Err(e) => json!({"k": "unresolved", "what": format!("{:?}", e)}),
					},
					_ => json!({"k": "ptr", "op": self.operand(func)}),
				};
				let a: Vec<Value> = args.iter().map(|o| self.operand(o)).collect();
				json!({"k": "call", "f": f, "a": a, "d": self.place(destination), "t": target, "u": self.unwind(unwind)})
			}
			TerminatorKind::Assert { cond, expected, msg, target, unwind } => {
				let m = msg.description().unwrap_or("assert");
				json!({"k": "assert", "c": self.operand(cond), "e": expected, "msg": m, "t": target, "u": self.unwind(unwind)})
			}
			TerminatorKind::InlineAsm { .. } => json!({"k": "asm"}),
		};
		if local {
			v.as_object_mut().unwrap().insert("span".into(), json!(self.span_str(&t.span)));
		}
		v
	}

	fn block(&mut self, b: &BasicBlock, body: &Body, local: bool) -> Value {
		let s: Vec<Value> = b.statements.iter().map(|s| self.statement(s, body)).collect();
		json!({"s": s, "t": self.terminator(&b.terminator, body, local)})
	}

	fn emit_fn(&mut self, id: usize, inst: Instance) {
		let name = inst.name();
		let local = name.starts_with(&self.local_prefix) || name.contains("happylock");
		let kind = match inst.kind {
			InstanceKind::Item => "item",
			InstanceKind::Intrinsic => "intrinsic",
			InstanceKind::Virtual { .. } => "virtual",
			InstanceKind::Shim => "shim",
		};
		let is_closure = matches!(inst.ty().kind(), TyKind::RigidTy(RigidTy::Closure(..)));
		let skipped = self.skip.iter().any(|p| name.contains(p.as_str()));
		let body = if skipped || matches!(inst.kind, InstanceKind::Virtual { .. }) { None } else { inst.body() };
		let bj = match &body {
			Some(b) => {
				let locals: Vec<usize> = b.locals().iter().map(|l| self.ty_id(l.ty)).collect();
				let blocks: Vec<Value> = b.blocks.iter().map(|bb| self.block(bb, b, local)).collect();
				json!({"locals": locals, "argc": b.arg_locals().len(), "spread": b.spread_arg(), "blocks": blocks,
					"span": self.span_str(&b.span)})
			}
			None => Value::Null,
		};
		self.fns[id] = json!({
			"id": id, "name": name, "def_name": inst.def.name(), "kind": kind,
			"intrinsic": inst.intrinsic_name(), "is_closure": is_closure, "local": local,
			"foreign": inst.is_foreign_item(), "body": bj, "skipped": skipped,
		});
	}
}

fn dump() -> ControlFlow<()> {
	let out = std::env::var("MIRDUMP_OUT").unwrap_or_else(|_| "mirdump.json".to_string());
	let prefix = std::env::var("MIRDUMP_PREFIX").unwrap_or_else(|_| "verif_harness::".to_string());
	let only = std::env::var("MIRDUMP_ONLY").ok();
	let krate = rustc_public::local_crate();
	let mut cx = Ctx {
		ty_ids: HashMap::new(),
		types: vec![],
		fn_ids: HashMap::new(),
		fns: vec![],
		queue: VecDeque::new(),
		alloc_ids: HashMap::new(),
		allocs: vec![],
		static_ids: HashMap::new(),
		statics: vec![],
		vtable_ids: HashMap::new(),
		vtables: vec![],
		local_prefix: format!("{}::", krate.name),
		notes: vec![],
		skip: std::env::var("MIRDUMP_SKIP").unwrap_or_default().split(',').filter(|s| !s.is_empty()).map(|s| s.to_string()).collect(),
	};
	let mut entries = serde_json::Map::new();
	for item in rustc_public::all_local_items() {
		if item.kind() != ItemKind::Fn {
			continue;
		}
		let name = item.name();
		if !name.contains(&prefix) || name.contains("::env::") || name.contains("{closure") {
			continue;
		}
		if let Some(o) = &only {
			if !o.split(',').any(|p| name.contains(p)) {
				continue;
			}
		}
		if item.requires_monomorphization() {
			continue;
		}
		if let Ok(inst) = Instance::try_from(item) {
			let id = cx.fn_id(inst);
			entries.insert(name, json!(id));
		}
	}
	while let Some((id, inst)) = cx.queue.pop_front() {
		cx.emit_fn(id, inst);
	}
	let j = json!({
		"crate": krate.name, "entries": entries, "types": cx.types, "fns": cx.fns, "allocs": cx.allocs,
		"statics": cx.statics, "vtables": cx.vtables, "notes": cx.notes,
	});
	std::fs::write(&out, serde_json::to_string(&j).unwrap()).expect("write dump");
	eprintln!("mirdump: {} entries, {} fns, {} types -> {}", j["entries"].as_object().unwrap().len(),
		j["fns"].as_array().unwrap().len(), j["types"].as_array().unwrap().len(), out);
	ControlFlow::Continue(())
}

fn main() {
	let args: Vec<String> = std::env::args().collect();
	// RUSTC_WRAPPER protocol: args[1] is the real rustc, the rest are its arguments
	let is_primary = std::env::var("CARGO_PRIMARY_PACKAGE").is_ok();
	let crate_name = args.iter().position(|a| a == "--crate-name").and_then(|i| args.get(i + 1)).cloned();
	let target = std::env::var("MIRDUMP_CRATE").unwrap_or_else(|_| "happylock".to_string());
	if args.len() < 2 {
		eprintln!("usage: as RUSTC_WRAPPER");
		std::process::exit(2);
	}
	if !is_primary || crate_name.as_deref() != Some(target.as_str()) || args.iter().any(|a| a == "--print" || a.starts_with("--print=")) {
		let st = std::process::Command::new(&args[1]).args(&args[2..]).status().expect("spawn rustc");
		std::process::exit(st.code().unwrap_or(1));
	}
	let mut rustc_args = vec!["rustc".to_string()];
	rustc_args.extend_from_slice(&args[2..]);
	let _ = rustc_public::run!(&rustc_args, dump);
	let _: Option<CrateItem> = None;
}
