"""Confirm a seeded breaking change and run the property's check against it.
usage: python3-vt -m vlib.seedtest <PROPERTY> <dir with patch.diff, demo.rs, meta.md> <name> [other property ids to run too]"""
import json
import os
import shutil
import subprocess
import sys
import time

from . import common


def sh(cmd, cwd=None, env=None, timeout=3600):
    r = subprocess.run(cmd, cwd=cwd, env=env, stdout=subprocess.PIPE, stderr=subprocess.STDOUT, text=True, timeout=timeout)
    return r.returncode, r.stdout


def main():
    pid, src, name = sys.argv[1], sys.argv[2], sys.argv[3]
    extra = sys.argv[4:]
    wt = "/var/tmp/seedeval.%d" % os.getpid()
    rc, out = sh(["git", "-C", "/repo", "worktree", "add", "-f", wt, "HEAD"])
    assert rc == 0, out
    env = common.env_offline()
    rec = {"property": pid, "name": name, "ran": []}
    try:
        patch = os.path.join(src, "patch.diff")
        demo = os.path.join(src, "demo.rs")
        # 1. clean tree: demo passes
        shutil.copy(demo, os.path.join(wt, "tests", "zz_demo.rs"))
        rc, out = sh(["cargo", "test", "--offline", "-j", "8", "--test", "zz_demo"], cwd=wt, env=env)
        rec["demo_on_clean_tree_passes"] = (rc == 0)
        # 2. apply: compiles, suite passes, demo fails
        rc, out = sh(["git", "apply", patch], cwd=wt)
        rec["patch_applies"] = (rc == 0)
        if rc != 0:
            print(out)
        os.remove(os.path.join(wt, "tests", "zz_demo.rs"))
        rc, out = sh(["cargo", "test", "--workspace", "--no-fail-fast", "--offline", "-j", "8"], cwd=wt, env=env)
        rec["suite_passes_with_change"] = (rc == 0)
        if rc != 0:
            print(out[-3000:])
        shutil.copy(demo, os.path.join(wt, "tests", "zz_demo.rs"))
        rc, out = sh(["cargo", "test", "--offline", "-j", "8", "--test", "zz_demo"], cwd=wt, env=env)
        rec["demo_fails_with_change"] = (rc != 0)
        os.remove(os.path.join(wt, "tests", "zz_demo.rs"))
        rec["ran"].append("cargo test --workspace --no-fail-fast --offline (with change): %s" % ("pass" if rec["suite_passes_with_change"] else "FAIL"))
        rec["ran"].append("cargo test --offline --test zz_demo: clean tree %s, with change %s" % (
            "pass" if rec["demo_on_clean_tree_passes"] else "FAIL", "fail" if rec["demo_fails_with_change"] else "PASS"))
        # 3. the checks
        shutil.rmtree(os.path.join(wt, "target"), ignore_errors=True)
        evdir = "/var/tmp/seedeval-evidence.%d" % os.getpid()
        cenv = dict(os.environ, VERIF_REPO=wt, VERIF_EVIDENCE_DIR=evdir)
        rec["checks"] = {}
        for p in [pid] + extra:
            t0 = time.time()
            rc, out = sh([os.path.join(common.VERIF, "check"), p], cwd=common.VERIF, env=cenv, timeout=7200)
            nv = sum(1 for l in out.splitlines() if l.startswith("VIOLATION"))
            rec["checks"][p] = {"exit": rc, "violation_lines": nv, "seconds": round(time.time() - t0),
                                "tail": [l for l in out.splitlines() if l.startswith(("  violation:", "UNCONFIRMED", "INCONCLUSIVE", "KNOWN"))][:6]}
            rec["ran"].append("VERIF_REPO=<worktree with change> ./check %s -> exit %d, %d VIOLATION lines" % (p, rc, nv))
            print(p, "exit", rc, "violations", nv)
            print("\n".join(out.splitlines()[-6:]))
        shutil.rmtree(evdir, ignore_errors=True)
    finally:
        sh(["git", "-C", "/repo", "worktree", "remove", "--force", wt])
        shutil.rmtree(wt, ignore_errors=True)
    ok = rec.get("patch_applies") and rec.get("suite_passes_with_change") and rec.get("demo_fails_with_change") and rec.get("demo_on_clean_tree_passes")
    rec["confirmed"] = bool(ok)
    print(json.dumps({k: v for k, v in rec.items() if k != "checks"}, indent=1))
    if ok:
        dst = os.path.join(common.VERIF, "seeded", name)
        os.makedirs(dst, exist_ok=True)
        shutil.copy(patch, os.path.join(dst, "patch.diff"))
        shutil.copy(demo, os.path.join(dst, "demo.rs"))
        meta_md = os.path.join(src, "meta.md")
        needs = open(meta_md).read() if os.path.exists(meta_md) else ""
        with open(os.path.join(dst, "meta.json"), "w") as fh:
            json.dump({"breaks_property": pid, "name": name, "needs_to_manifest_and_author_notes": needs[:6000],
                       "what_i_ran": rec["ran"], "check_results": rec["checks"],
                       "detected_by": [p for p, c in rec["checks"].items() if c["exit"] == 1]}, fh, indent=1)
    return 0


if __name__ == "__main__":
    sys.exit(main())
