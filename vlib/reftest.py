"""Run checks against a behaviour-preserving refactoring (false-alarm test).
usage: python3-vt -m vlib.reftest <dir with patch.diff> <name> <check ids...>"""
import json
import os
import shutil
import subprocess
import sys
import time

from . import common


def sh(cmd, cwd=None, env=None, timeout=7200):
    r = subprocess.run(cmd, cwd=cwd, env=env, stdout=subprocess.PIPE, stderr=subprocess.STDOUT, text=True, timeout=timeout)
    return r.returncode, r.stdout


def main():
    src, name, ids = sys.argv[1], sys.argv[2], sys.argv[3:]
    wt = "/var/tmp/refeval.%d" % os.getpid()
    rc, out = sh(["git", "-C", "/repo", "worktree", "add", "-f", wt, "HEAD"])
    assert rc == 0, out
    rec = {"name": name, "checks": {}}
    try:
        rc, out = sh(["git", "apply", os.path.join(src, "patch.diff")], cwd=wt)
        rec["patch_applies"] = rc == 0
        shutil.copy("/repo/Cargo.lock", os.path.join(wt, "Cargo.lock"))
        rc, out = sh(["cargo", "test", "--workspace", "--no-fail-fast", "--offline", "-j", "8"], cwd=wt, env=common.env_offline())
        rec["suite_passes"] = rc == 0
        shutil.rmtree(os.path.join(wt, "target"), ignore_errors=True)
        evdir = "/var/tmp/refeval-evidence.%d" % os.getpid()
        cenv = dict(os.environ, VERIF_REPO=wt, VERIF_EVIDENCE_DIR=evdir)
        for p in ids:
            t0 = time.time()
            rc, out = sh([os.path.join(common.VERIF, "check"), p], cwd=common.VERIF, env=cenv)
            lines = [l for l in out.splitlines() if l.startswith(("  violation:", "UNCONFIRMED", "INCONCLUSIVE", "VIOLATION"))][:5]
            rec["checks"][p] = {"exit": rc, "seconds": round(time.time() - t0), "lines": lines}
            print(name, p, "exit", rc, flush=True)
            for l in lines[:3]:
                print("    ", l[:300], flush=True)
        shutil.rmtree(evdir, ignore_errors=True)
    finally:
        sh(["git", "-C", "/repo", "worktree", "remove", "--force", wt])
        shutil.rmtree(wt, ignore_errors=True)
    dst = os.path.join(common.VERIF, "seeded", "refactorings", name)
    os.makedirs(dst, exist_ok=True)
    shutil.copy(os.path.join(src, "patch.diff"), os.path.join(dst, "patch.diff"))
    meta = os.path.join(src, "meta.md")
    rec["author_notes"] = open(meta).read()[:4000] if os.path.exists(meta) else ""
    old = {}
    if os.path.exists(os.path.join(dst, "meta.json")):
        try:
            old = json.load(open(os.path.join(dst, "meta.json")))
        except Exception:
            old = {}
    merged = dict(old.get("checks", {}))
    for p_, c in rec["checks"].items():
        c = dict(c)
        c["run"] = "second pass, after the third-round strengthening of the checks"
        merged[p_ + " (2nd)"] = c
    rec["checks"] = merged
    with open(os.path.join(dst, "meta.json"), "w") as fh:
        json.dump(rec, fh, indent=1)
    print(json.dumps({k: v for k, v in rec.items() if k not in ("author_notes",)}, indent=1)[:1500])


if __name__ == "__main__":
    main()
