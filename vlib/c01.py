"""C01: deadlock freedom.  Per-thread wait points come from symbolic execution of the real acquisition
code under an adversarial environment; the global question 'is there a state in which every unfinished
thread waits' is one z3 query per thread count over the catalogue of wait points."""
import json
import os
import subprocess
import time

from . import checks, common, engine
from .checks import CODES as C

UNIVERSE_KIND = {0: "M", 1: "R", 2: "M", 3: "R", 4: "M", 5: "R"}


def collect_catalogue(results, shape_private):
    """wait points (awaited global id, mode, held_x set, held_s set) over all entries; private lock ids
    (>= 6) are renamed per shape so that different shapes never share an owned unit by accident"""
    cat = {}
    gid = {}
    kinds = dict(UNIVERSE_KIND)

    def g(shape, lid, kind_of):
        if lid < 6:
            return lid
        key = (shape, lid)
        if key not in gid:
            gid[key] = 6 + len(gid)
            kinds[gid[key]] = kind_of.get(lid, "M")
        return gid[key]

    examples = {}
    for r in results:
        shape = r["entry"].split("::")[1].split("__")[0]
        kind_of = shape_private.get(shape, {})
        exs = {tuple(k): (inp, clean) for (k, inp, clean) in r.get("wait_examples", [])}
        for (aw, mode, hx, hs) in r.get("waits", []):
            a = g(shape, aw, kind_of)
            hxs = frozenset(g(shape, i, kind_of) for i in range(32) if hx >> i & 1)
            hss = frozenset(g(shape, i, kind_of) for i in range(32) if hs >> i & 1)
            if kinds.get(a) == "M":
                mode = 0
            key = (a, mode, hxs, hss)
            cat.setdefault(key, set()).add(r["entry"])
            ex = exs.get((aw, mode if kinds.get(a) != "M" else mode, hx, hs)) or exs.get((aw, 0, hx, hs)) or exs.get((aw, 1, hx, hs))
            if ex is not None:
                cur = examples.get(key)
                if cur is None or (ex[1] and not cur[2]):
                    examples[key] = (r["entry"], ex[0], ex[1], aw)
    collect_catalogue.examples = examples
    return cat, kinds


def mask_of(ids):
    m = 0
    for i in ids:
        m |= 1 << i
    return m


def deadlock_query(cat, n_threads, width=64):
    """z3 query: do n_threads wait points exist that are mutually compatible and mutually blocking?"""
    import z3
    s = z3.Solver()
    s.set("timeout", 600000)
    entries = sorted(cat.keys(), key=lambda k: (k[0], k[1], sorted(k[2]), sorted(k[3])))
    wp = z3.Bool("writer_preferring")
    T = []
    for t in range(n_threads):
        aw = z3.BitVec("await_%d" % t, 8)
        md = z3.BitVec("mode_%d" % t, 1)
        hx = z3.BitVec("heldx_%d" % t, width)
        hs = z3.BitVec("helds_%d" % t, width)
        sel = z3.Int("sel_%d" % t)
        T.append((aw, md, hx, hs, sel))
        s.add(z3.Or(*[z3.And(sel == i, aw == e[0], md == e[1], hx == mask_of(e[2]), hs == mask_of(e[3]))
                      for i, e in enumerate(entries)]))
    one = z3.BitVecVal(1, width)

    def bit(aw):
        return one << z3.ZeroExt(width - 8, aw)

    zero = z3.BitVecVal(0, width)
    for t in range(n_threads):
        aw, md, hx, hs, _ = T[t]
        # holdings are mutually compatible under the lock semantics
        for u in range(n_threads):
            if u == t:
                continue
            _, _, hxu, hsu, _ = T[u]
            s.add(hx & (hxu | hsu) == zero)
        # symmetry breaking: threads are interchangeable
        if t + 1 < n_threads:
            s.add(T[t][4] <= T[t + 1][4])
        b = bit(aw)
        held_by_other_any = z3.Or(*[(b & (T[u][2] | T[u][3])) != zero for u in range(n_threads) if u != t])
        held_by_other_x = z3.Or(*[(b & T[u][2]) != zero for u in range(n_threads) if u != t])
        writer_queued = z3.Or(*[z3.And(T[u][0] == aw, T[u][1] == 0) for u in range(n_threads) if u != t])
        read_held_by_other = z3.Or(*[(b & T[u][3]) != zero for u in range(n_threads) if u != t])
        blocked_x = held_by_other_any
        blocked_s = z3.Or(held_by_other_x, z3.And(wp, writer_queued, read_held_by_other))
        s.add(z3.If(md == 0, blocked_x, blocked_s))
    t0 = time.time()
    r = s.check()
    dt = time.time() - t0
    model = None
    if r == z3.sat:
        m = s.model()
        model = {"writer_preferring": bool(z3.is_true(m.eval(wp, model_completion=True))), "threads": []}
        for (aw, md, hx, hs, sel) in T:
            i = m.eval(sel, model_completion=True).as_long()
            e = entries[i]
            model["threads"].append({"awaits": e[0], "mode": "X" if e[1] == 0 else "S", "holds_x": sorted(e[2]),
                                     "holds_s": sorted(e[3]), "example_entries": sorted(cat[e])[:3], "key": [e[0], e[1], sorted(e[2]), sorted(e[3])]})
    return str(r), dt, model, s.to_smt2()


def cross_check(smt2, tag, timeout=300):
    """the same query through z3 4.8.12 and cvc5 (verdicts must agree)"""
    out = {}
    path = os.path.join(common.SCRATCH_ROOT, "c01_%s_%d.smt2" % (tag, os.getpid()))
    with open(path, "w") as fh:
        fh.write("(set-logic ALL)\n" + smt2)
    for name, cmd in (("z3-4.8.12", ["/usr/bin/z3", path]), ("cvc5", ["cvc5", "--lang", "smt2", path])):
        try:
            r = subprocess.run(cmd, stdout=subprocess.PIPE, stderr=subprocess.STDOUT, text=True, timeout=timeout)
            txt = r.stdout.strip().splitlines()
            verdict = txt[0] if txt else "?"
            if any("(error" in l for l in txt):
                verdict = "inconclusive: " + " ".join(txt)[:120]
            out[name] = verdict
        except subprocess.TimeoutExpired:
            out[name] = "timeout after %ds" % timeout
        except Exception as e:
            out[name] = "failed: %s" % e
    try:
        os.remove(path)
    except OSError:
        pass
    return out


def confirm_deadlock(run, model):
    """native confirmation: real OS threads execute the real acquisition code of one example entry per
    thread; each is paused right before its awaited lock, then all proceed; the replay binary reports
    whether every unfinished thread ends up blocked"""
    examples = getattr(collect_catalogue, "examples", {})
    specs = []
    for t in model["threads"]:
        key = (t["key"][0], t["key"][1], frozenset(t["key"][2]), frozenset(t["key"][3]))
        ex = examples.get(key)
        if ex is None:
            return None
        entry, inputs, clean, orig_aw = ex
        specs.append("%s|%s|%d" % (entry, ",".join("%d:%d" % (a, b) for (a, b) in inputs), orig_aw))
    try:
        r = subprocess.run([run.replay_bin, "--mt"] + specs, stdout=subprocess.PIPE, stderr=subprocess.DEVNULL, text=True, timeout=60)
    except subprocess.TimeoutExpired:
        return None
    out = r.stdout
    model["native_log"] = [l for l in out.splitlines() if l.startswith("MT")][-40:]
    model["native_cmd"] = specs
    return "MT-OUTCOME deadlock" in out
