"""Which properties are claimed, and in what words (feeds MANIFEST.json)."""
from .mkmanifest import claim, write

NOTE = ("Trusted: rustc's MIR/layout (nightly), the mirsym interpreter and its ~30 summaries of body-less std items "
        "(cross-checked each run by native trace comparison of sampled paths), z3, the auditing raw locks of harness/env.rs. "
        "Bounds: sizes, nesting, universe and history lengths as listed in the evidence file; outside them nothing is claimed.")

claim("C13", "symbolic execution of the crate's MIR (mirsym) + z3; counterexamples replayed natively",
      "Bounded symbolic model checking of the real try_* code paths: every collection kind/shape within the bounds, every arrangement "
      "and every pre-held pattern (symbolic), decided by z3 over all values; the for-all-inputs claim is exactly what a solver gives and tests cannot.",
      NOTE, "DESIGN.md section 3 (C13)")

if __name__ == "__main__":
    m = write()
    print("claimed:", [c["property_id"] for c in m["checks"]])
