"""Which properties are claimed, and in what words (feeds MANIFEST.json)."""
from .mkmanifest import claim, write

NOTE = ("Trusted: rustc's MIR/layout (nightly), the mirsym interpreter and its ~30 summaries of body-less std items "
        "(cross-checked each run by native trace comparison of sampled paths), z3, the auditing raw locks of harness/env.rs. "
        "Bounds: sizes, nesting, universe and history lengths as listed in the evidence file; outside them nothing is claimed.")

claim("C13", "symbolic execution of the crate's MIR (mirsym) + z3; counterexamples replayed natively",
      "Bounded symbolic model checking of the real try_* code paths: every collection kind/shape within the bounds, every arrangement "
      "and every pre-held pattern (symbolic), decided by z3 over all values; the for-all-inputs claim is exactly what a solver gives and tests cannot.",
      NOTE, "DESIGN.md section 3 (C13)")

T = "symbolic execution of the crate's monomorphic MIR (mirsym) with z3 deciding path feasibility and monitor assertions; counterexample models replayed natively"

claim("C03", T, "Bounded symbolic model checking: for every shape/API flavour within the bounds and every environment answer, the analysed thread holds nothing at the first raw operation of a call and whenever a key comes back (monitors on the auditing raw lock), decided over all symbolic arrangements and environment choices.", NOTE, "DESIGN.md section 3 (C03)")
claim("C04", T, "Bounded symbolic model checking of every acquisition API on every shape within the bounds against a quiescent symbolic pre-state and an adversarial environment: holdings after Ok are exactly the leaves in the requested mode, after Err nothing, no blocking operation inside try_*, closure runs exactly once iff acquired.", NOTE, "DESIGN.md section 3 (C04)")
claim("C05", T, "Bounded symbolic model checking with an auditing raw lock as oracle: every release issued by happylock is matched against the owner table (holder, mode) on every explored path; at the end of every path the thread holds nothing.", NOTE, "DESIGN.md section 3 (C05)")
claim("C09", T, "Bounded symbolic model checking of RetryingLockCollection::raw_write/raw_read against an adversarial, eventually quiet environment: every wait event is checked for an empty held set (modulo private leaves of nested owned units) and every path must complete with all members held once interference stops; non-termination within the step budget is a candidate that is replayed natively.", NOTE, "DESIGN.md section 3 (C09)")
claim("C11", T, "Bounded symbolic model checking with real unwinding semantics (MIR cleanup blocks, catch_unwind at intrinsic level): a user panic at a symbolic critical section of every shape/API/key style; after the caught unwind nothing is held, no release was unmatched, the key is obtainable/usable and the locks can be re-acquired; abort is detected as an outcome.", NOTE, "DESIGN.md section 3 (C11)")
claim("C12", T, "Bounded symbolic fault injection decided by the solver: a one-shot panic at a symbolic raw-operation index (every operation of the call incl. rollback and unwind handlers) and the persistent fault classes of tests/evil_*.rs at symbolic positions; oracle = the statement (panic reaches caller, nothing else leaked, no foreign release, faulted lock refuses acquisition). Genuine defects are listed in known_findings.json by role.", NOTE, "DESIGN.md section 3 (C12), section 5")

claim("C06", T, "Bounded symbolic model checking of key histories: every sequence (length 3 quick / 4 thorough) over a 20-operation key-affecting vocabulary, with a ThreadKey::get() probe after each step compared with a one-boolean reference model; includes panics caught by the harness, leaked keys/guards and a second modelled thread.", NOTE, "DESIGN.md section 3 (C06)")
claim("C07", T, "Bounded symbolic model checking of the checked constructors: member indices are symbolic and not constrained to be distinct, the oracle is 'some index occurs twice in the flattened leaf list'; z3 decides try_new().is_none() == oracle for all index vectors, incl. nested collections and wrappers listed twice.", NOTE, "DESIGN.md section 3 (C07)")
claim("C08", T, "Bounded symbolic model checking: two sorting collections from two independent symbolic arrangements over the same universe; the recorded sequences of blocking raw acquisitions must order common locks identically, be increasing in address, be repeatable, and keep an owned group contiguous.", NOTE, "DESIGN.md section 3 (C08)")
claim("C10", T, "Bounded symbolic model checking of poisoning histories against a three-valued reference model (must / may / must-not), with real unwinding; the statement's four poisoning routes, clear_poison and all observing acquisitions are covered for Poisonable<Mutex|RwLock> alone and inside boxed/ref/retrying collections.", NOTE, "DESIGN.md section 3 (C10)")

claim("C02", T, "Bounded symbolic model checking of data routing and continuity: symbolic bytes written through every declared position of an exclusive guard / closure argument are read back member-wise (singly locked leaves), by a later guard, a scoped closure and a read guard; equality is decided by z3; user code is checked to run only while the leaves are held in the requested mode.", NOTE, "DESIGN.md section 3 (C02)")
claim("C16", T, "Bounded symbolic model checking with a drop-counting payload and mirsym's heap model (double free, use after free, out-of-bounds, allocations live at path end): every constructor/destructor path of every collection kind over tuples, arrays, Vec and boxed slices; counters must be exactly 1 and symbolic payload bytes must round-trip at the declared positions.", NOTE, "DESIGN.md section 3 (C16)")
claim("C17", T, "Bounded symbolic model checking of every non-acquiring operation (Debug of locks, collections and guards via the real Debug impls, accessors, constructors incl. duplicate check, poison flag accessors, get_mut/into_inner/into_child) under every symbolic pre-held pattern by other threads and by the calling thread itself (live guard, running closure): no blocking raw operation, no wait, owner table unchanged, no unmatched release.", NOTE, "DESIGN.md section 3 (C17)")

claim("C01", "symbolic execution of the real acquisition code per thread (mirsym) + one z3 combination query per thread count over the catalogue of wait points; deadlock candidates replayed natively with real OS threads",
      "Thread-modular bounded model checking: each blocking API of each shape is executed symbolically against an adversarial environment, giving the set of (held locks, awaited lock, mode) wait points; z3 then decides for 2, 3 and 4 threads whether wait points exist that are mutually compatible and mutually blocking (both RwLock wake policies). unsat = no deadlock state in an over-approximation of the reachable states, for every schedule and every number of acquisitions per thread. Single-thread clause: self-wait monitor over seeded A;B;A call sequences.",
      NOTE, "DESIGN.md section 3 (C01), appendix A")

if __name__ == "__main__":
    m = write()
    print("claimed:", [c["property_id"] for c in m["checks"]])
