"""debug helper: python3-vt -m vlib.dbg <harness-kind> <entry-substring> [native]
harness-kind: fault | evil | user | acq"""
import sys
import json
from . import engine, common
from harness import props, gen


def main():
    kind, pat = sys.argv[1], sys.argv[2]
    if kind in ("fault", "evil", "user"):
        text, names = props.gen_panic("quick", kind, fixed_seed=0)
        files = {"h_%s.rs" % kind: text}
    elif kind == "acq":
        text, names = props.gen_acq("quick")
        files = {"h_acq.rs": text}
    else:
        mod = __import__("harness.props", fromlist=["x"])
        text, names = getattr(mod, "gen_" + kind)("quick")
        files = {"h_%s.rs" % kind: text}
    run = engine.MirRun("dbg", files, need_replay=True)
    entries = [e for e in run.entries if pat in e]
    print("entries", entries[:10])
    for e in entries[:int(sys.argv[3]) if len(sys.argv) > 3 else 3]:
        r = engine.explore_entry((run.dump_path, e, {"sample_p": 0.0, "max_samples": 0}))
        print("==", e, r["outcomes"], r["error"], "marks", r["marks"])
        seen = set()
        for p in r["paths"]:
            key = (p["outcome"], tuple(v["code"] for v in p["violations"]), (p.get("detail") or "")[:80])
            if key in seen:
                continue
            seen.add(key)
            print("  path", p["outcome"], p.get("detail"), "inputs", p["inputs"])
            for v in p["violations"]:
                print("     viol", v["code"], v["spans"])
            ev = p.get("events") or []
            print("     events", ev[-40:])
            if p["inputs"] is not None:
                nat = run.native(e, p["inputs"])
                print("     native", nat["outcome"], nat["violated"], nat["events"][-12:])
    run.close()


main()
