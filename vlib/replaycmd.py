"""./check <ID> --replay <file>: re-run a counterexample natively against the current /repo tree."""
import json
import os

from . import common, engine, properties


def harness_for(pid, tier="quick", seed=0):
    """rebuild the harness files the property's check uses (same generators)"""
    from harness import props
    gens = {
        "C13": lambda: {"h_acq.rs": props.gen_acq(tier, envs=("q",), only_try=True)[0]},
        "C04": lambda: {"h_acq.rs": props.gen_acq(tier, envs=("q", "a"))[0]},
        "C05": lambda: {"h_acq.rs": props.gen_acq(tier, envs=("a",))[0]},
        "C03": lambda: {"h_acq.rs": props.gen_acq(tier, envs=("a",))[0]},
        "C09": lambda: {"h_acq.rs": props.gen_acq(tier, envs=("a",), kinds=lambda sh: sh.kind == "retry" or "rt" in sh.name, only_blocking=True, budget=3)[0]},
        "C01": lambda: {"h_acq.rs": props.gen_acq(tier, envs=("a",), only_blocking=True, budget=3)[0], "h_seq.rs": props.gen_seq(tier, seed, 48)[0]},
        "C11": lambda: {"h_panic.rs": props.gen_panic(tier, "user")[0]},
        "C12": lambda: {"h_fault.rs": props.gen_panic(tier, "fault", fixed_seed=seed)[0],
                        "h_evil.rs": props.gen_panic(tier, "evil", kinds=lambda sh: sh.kind not in ("single_m", "single_r"), fixed_seed=seed)[0]},
        "C10": lambda: {"h_poison.rs": props.gen_poison(tier)[0]},
        "C07": lambda: {"h_dup.rs": props.gen_dup(tier)[0]},
        "C08": lambda: {"h_order.rs": props.gen_order(tier)[0]},
        "C06": lambda: {"h_key.rs": props.gen_key(tier)[0]},
        "C02": lambda: {"h_data.rs": props.gen_data(tier)[0]},
        "C16": lambda: {"h_drop.rs": props.gen_drop(tier)[0]},
        "C17": lambda: {"h_nonacq.rs": props.gen_nonacq(tier)[0]},
    }
    return gens[pid]()


def replay(pid, path):
    with open(path) as fh:
        rec = json.load(fh)
    seed = int(os.environ.get("VERIF_SEED", "0") or 0)
    run = engine.MirRun(pid.lower() + "rp", harness_for(pid, os.environ.get("VERIF_TIER", "quick"), seed), need_replay=True, dump=False)
    try:
        if rec.get("kind") == "deadlock-state":
            from . import c01
            import subprocess
            specs = rec["model"].get("native_cmd") or []
            r = subprocess.run([run.replay_bin, "--mt"] + specs, stdout=subprocess.PIPE, text=True, timeout=60)
            print(r.stdout[-3000:])
            ok = "MT-OUTCOME deadlock" in r.stdout
        else:
            nat = run.native(rec["entry"], [tuple(x) for x in rec["inputs"]])
            print("outcome:", nat["outcome"], "violated monitors:", [checks_name(c) for c in nat["violated"]])
            for e in nat["events"][-60:]:
                print("  EV", e)
            code = rec.get("monitor")
            ok = (code in nat["violated"]) if code is not None else (nat["outcome"] == rec["kind"])
        print("REPRODUCED" if ok else "NOT REPRODUCED")
        if ok:
            print("VIOLATION property=%s replay=%s" % (pid, path))
        return 1 if ok else 0
    finally:
        run.close()


def checks_name(c):
    from .checks import code_name
    return code_name(c)
