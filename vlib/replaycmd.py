"""./check <ID> --replay <file>: re-run a counterexample natively against the current /repo tree."""
import json
import os

from . import common, engine, properties


def harness_for(pid, tier="quick", seed=0):
    """the harness files the property's check generates: obtained by running the property's own definition
    with the exploration step replaced by a recorder"""
    captured = {}

    def recorder(pid_, tier_, seed_, harness_files, *a, **k):
        captured["files"] = harness_files
        return 0

    from . import checks
    orig = checks.run_mirsym_property
    checks.run_mirsym_property = recorder
    try:
        properties.PROPS[pid](tier, seed)
    finally:
        checks.run_mirsym_property = orig
    return captured["files"]


def replay(pid, path):
    with open(path) as fh:
        rec = json.load(fh)
    seed = int(os.environ.get("VERIF_SEED", "0") or 0)
    run = engine.MirRun(pid.lower() + "rp", harness_for(pid, os.environ.get("VERIF_TIER", "quick"), seed), need_replay=True, dump=False)
    try:
        if rec.get("kind") == "deadlock-state":
            from . import c01
            import subprocess
            specs = rec["model"].get("native_cmd") or []
            r = subprocess.run([run.replay_bin, "--mt"] + specs, stdout=subprocess.PIPE, text=True, timeout=60)
            print(r.stdout[-3000:])
            ok = "MT-OUTCOME deadlock" in r.stdout
        else:
            nat = run.native(rec["entry"], [tuple(x) for x in rec["inputs"]])
            print("outcome:", nat["outcome"], "violated monitors:", [checks_name(c) for c in nat["violated"]])
            for e in nat["events"][-60:]:
                print("  EV", e)
            code = rec.get("monitor")
            ok = (code in nat["violated"]) if code is not None else (nat["outcome"] == rec["kind"])
        print("REPRODUCED" if ok else "NOT REPRODUCED")
        if ok:
            print("VIOLATION property=%s replay=%s" % (pid, path))
        return 1 if ok else 0
    finally:
        run.close()


def checks_name(c):
    from .checks import code_name
    return code_name(c)
