"""Per-property check definitions."""
from . import checks, common
from .checks import CODES as C

sys_assumptions = [
    "rustc's monomorphic MIR (nightly, panic=unwind, opt-level 0, overflow checks on) and layouts are the semantics of the code",
    "mirsym's MIR interpreter and its summaries of body-less std items (allocator, panic entry points, catch_unwind intrinsic, atomics) are faithful; cross-checked on every run by replaying sampled paths natively and comparing full event traces",
    "the auditing raw locks (harness/env.rs) implement the lock_api contract; a blocked acquire is granted once the holder releases (the property's fairness premise)",
    "x86-64 layout; payload u8; bounds as listed under coverage.bounds; everything outside them is not claimed",
]


def codes(*names):
    return set(C[n] for n in names)


def harness_acq(tier, **kw):
    from harness import props
    text, names = props.gen_acq(tier, **kw)
    return {"h_acq.rs": text}, names


def c13(tier, seed):
    files, names = harness_acq(tier, envs=("q",), only_try=True)
    return checks.run_mirsym_property(
        "C13", tier, seed, files, codes("M_TRY_VERDICT", "M_STATE_CHANGED", "M_BLOCKING_IN_TRY"),
        assumptions=sys_assumptions + ["quiescent environment: other threads' holdings are a symbolic pre-state that does not change during the call"],
        bounds={"collection_sizes": "1..3 (quick) / 1..4 (thorough)", "nesting_depth": 2, "universe_locks": 6,
                "pre_state": "every assignment of {free, read-held, write-held by another thread} to the leaves (symbolic)",
                "arrangements": "every injective assignment of member slots to universe locks (symbolic indices)"},
        expect_marks=("9003",))


PROPS = {"C13": c13}
