"""Per-property check definitions."""
import json
import os
import time

from . import checks, common
from .checks import CODES as C

sys_assumptions = [
    "rustc's monomorphic MIR (nightly, panic=unwind, opt-level 0, overflow checks on) and layouts are the semantics of the code",
    "mirsym's MIR interpreter and its summaries of body-less std items (allocator, panic entry points, catch_unwind intrinsic, atomics) are faithful; cross-checked on every run by replaying sampled paths natively and comparing full event traces",
    "the auditing raw locks (harness/env.rs) implement the lock_api contract; a blocked acquire is granted once the holder releases (the property's fairness premise)",
    "x86-64 layout; payload u8; bounds as listed under coverage.bounds; everything outside them is not claimed",
]


def codes(*names):
    return set(C[n] for n in names)


def harness_acq(tier, **kw):
    from harness import props
    text, names = props.gen_acq(tier, **kw)
    return {"h_acq.rs": text}, names


SMALL_PANIC_SHAPES = ("s_m", "s_r", "po_m", "po_r", "po_bx", "po_rt", "bx_mr", "rt_mr", "rf_mr", "ow_mr", "ow_rr", "n_rt_ow")


def with_user_panics(files, tier):
    """adds the user-panic entries (caught unwind) of a small set of shapes: 'returned or unwound'"""
    from harness import props
    text, names = props.gen_panic(tier, "user", kinds=lambda sh: sh.name in SMALL_PANIC_SHAPES)
    files = dict(files)
    files["h_panic.rs"] = text
    return files


def c13(tier, seed):
    files, names = harness_acq(tier, envs=("q",), only_try=True)
    # a caught user panic leaves a quiescent state too: the locks must be try-lockable again (M_LEAK = "not re-acquirable")
    files = with_user_panics(files, tier)
    return checks.run_mirsym_property(
        "C13", tier, seed, files, codes("M_TRY_VERDICT", "M_STATE_CHANGED", "M_BLOCKING_IN_TRY", "M_LEAK"),
        assumptions=sys_assumptions + ["quiescent environment: other threads' holdings are a symbolic pre-state that does not change during the call"],
        bounds={"collection_sizes": "1..3 (quick) / 1..4 (thorough)", "nesting_depth": 2, "universe_locks": 6,
                "pre_state": "every assignment of {free, read-held, write-held by another thread} to the leaves (symbolic)",
                "arrangements": "every injective assignment of member slots to universe locks (symbolic indices)"},
        expect_marks=("9003",))


BOUNDS = {"collection_sizes": "1..3 (quick) / 1..4 (thorough)", "nesting_depth": 2, "universe_locks": "6 shared + up to 4 owned",
          "arrangements": "every injective assignment of member slots to universe locks (symbolic indices)",
          "environment": "q: symbolic quiescent pre-state; a: adversarial - every lock T0 does not hold may be held by someone else at each raw operation, at most `budget` times (2 quick / 3 thorough), then free",
          "api_flavours": "lock/try_lock/read/try_read/scoped_*/scoped_try_* with owned and lent key, release by drop and by unlock"}


def c04(tier, seed):
    files, names = harness_acq(tier, envs=("q", "a"))
    return checks.run_mirsym_property(
        "C04", tier, seed, files,
        codes("M_NOT_ALL_HELD", "M_HELD_AFTER_ERR", "M_BLOCKING_IN_TRY", "M_CLOSURE_COUNT", "M_NOT_HELD_IN_SECTION", "M_DUP_VERDICT", "M_SELF_WAIT"),
        assumptions=sys_assumptions, bounds=BOUNDS)


def with_sequences(files, tier, seed):
    """adds seeded A;B;A sequences of complete API calls over shapes sharing locks"""
    from harness import props
    text, names = props.gen_seq(tier, seed, 48 if tier == "quick" else 240)
    files = dict(files)
    files["h_seq.rs"] = text
    return files


def c05(tier, seed):
    files, names = harness_acq(tier, envs=("a",))
    files = with_sequences(files, tier, seed)
    return checks.run_mirsym_property(
        "C05", tier, seed, files, codes("M_BAD_RELEASE", "M_HELD_AFTER_ERR", "M_SELF_WAIT"),
        assumptions=sys_assumptions, bounds=BOUNDS)


def c03(tier, seed):
    files, names = harness_acq(tier, envs=("a",))
    files = with_sequences(files, tier, seed)
    files = with_user_panics(files, tier)
    return checks.run_mirsym_property(
        "C03", tier, seed, files, codes("M_HELD_AT_API_BEGIN", "M_HELD_AT_KEY_BACK", "M_SELF_WAIT", "M_KEY_MODEL", "M_LEAK"),
        assumptions=sys_assumptions, bounds=BOUNDS)


def c09(tier, seed):
    files, names = harness_acq(tier, envs=("a",), kinds=lambda sh: sh.kind == "retry" or "rt" in sh.name, only_blocking=True,
                               budget=(3 if tier == "quick" else (lambda sh: 4 if sh.n() <= 3 else 3)))
    return checks.run_mirsym_property(
        "C09", tier, seed, files, codes("M_HOLD_AND_WAIT", "M_NOT_ALL_HELD", "M_NOT_COMPLETED", "M_SELF_WAIT"),
        outcome_kinds=("abort", "unwound", "memory-error", "budget", "fatal"),
        opts={"entry_timeout": 300 if tier == "quick" else 3000},
        assumptions=sys_assumptions + ["eventually-quiet environment: after at most `budget` interference events every contended lock is released and stays free"],
        bounds=dict(BOUNDS, retry_rounds="bounded by the interference budget 3 (quick) / 4 (thorough; 3 for 4-member shapes)"))


def c11(tier, seed):
    from harness import props
    text, names = props.gen_panic(tier, "user")
    return checks.run_mirsym_property(
        "C11", tier, seed, {"h_panic.rs": text}, codes("M_LEAK", "M_BAD_RELEASE", "M_KEY_MODEL", "M_NOT_ALL_HELD", "M_NOT_HELD_IN_SECTION"),
        assumptions=sys_assumptions + ["user code panics at a symbolic choice of critical sections (one site per call); quiescent environment with symbolic pre-state"],
        bounds=BOUNDS, per_entry_expect=lambda e: ("9003", "9004"))


def c12(tier, seed):
    from harness import props
    fixed = seed if tier == "quick" else None
    t1, n1 = props.gen_panic(tier, "fault", fixed_seed=fixed)
    t2, n2 = props.gen_panic(tier, "evil", kinds=lambda sh: sh.kind not in ("single_m", "single_r"), fixed_seed=seed)
    return checks.run_mirsym_property(
        "C12", tier, seed, {"h_fault.rs": t1, "h_evil.rs": t2},
        codes("M_LEAK", "M_BAD_RELEASE", "M_NO_PANIC", "M_FAULTED_USABLE", "M_KEY_MODEL", "M_HELD_AFTER_ERR", "M_SELF_WAIT"),
        assumptions=sys_assumptions + ["one-shot fault: exactly one raw operation (symbolic index over every operation the call issues, including those in rollback and unwind handlers) panics instead of acting; persistent faults: one lock with a fault class of tests/evil_*.rs plus optionally a second lock whose release panics"],
        bounds=BOUNDS, per_entry_expect=lambda e: ("9003", "9004"))


def c10(tier, seed):
    from harness import props
    text, names = props.gen_poison(tier)
    return checks.run_mirsym_property(
        "C10", tier, seed, {"h_poison.rs": text}, codes("M_POISON_MODEL", "M_LEAK", "M_BAD_RELEASE", "M_KEY_MODEL", "M_NOT_ALL_HELD", "M_TRY_VERDICT"),
        assumptions=sys_assumptions + [
            "three-valued reference model per wrapper: must-be-poisoned after a panic during an exclusive hold (own guard / own scoped / guard or scoped call of a containing collection) since the last clear_poison; may after a panic during a shared hold only (the statement leaves it open); must-not otherwise",
            "histories: hold A (fixed route, symbolic panic) ; optional clear ; hold B (symbolic route, symbolic panic) ; optional clear ; then lock/try_lock/scoped_lock/read/scoped_read and the containing collection's guard and scoped call are compared with the model"],
        bounds={"history_length": "2 holds + 2 optional clears + 5..7 observing acquisitions", "wrappers": list(props.POIS_SHAPES),
                "routes": list(props.ROUTE_IDS)})


def _c07_expect(e):
    kinds = e.split("_")[-1]
    if e.startswith("h_dup::dup_") and (kinds.count("m") > 3 or kinds.count("r") > 3):
        return ("9003", "9002")
    return ("9003", "9001")


def c07(tier, seed):
    from harness import props
    text, names = props.gen_dup(tier)
    return checks.run_mirsym_property(
        "C07", tier, seed, {"h_dup.rs": text}, codes("M_DUP_VERDICT", "M_NOT_ALL_HELD", "M_HELD_AFTER_ERR", "M_BLOCKING_IN_TRY"),
        assumptions=sys_assumptions + ["HashSet<*const ()>::{with_capacity, insert} of the retrying collection's duplicate check are summarised with set semantics (std's hashing is trusted)",
                                       "the compile-time clause (new/new_ref accept only owned inputs) is a type-system fact and not part of this check"],
        bounds={"member_list_length": "1..4 (quick) / 1..6 (thorough)", "universe": "3 mutexes + 3 rwlocks, member indices symbolic and NOT constrained to be distinct",
                "nesting": "boxed/ref/retrying inside boxed/ref/retrying with an extra member; owned collections and poisonable wrappers referenced twice",
                "containers": "tuples (quick); arrays and Vec additionally (thorough)"},
        per_entry_expect=_c07_expect)


def c08(tier, seed):
    from harness import props
    text, names = props.gen_order(tier)
    return checks.run_mirsym_property(
        "C08", tier, seed, {"h_order.rs": text}, codes("M_ORDER", "M_NOT_ALL_HELD", "M_HELD_AFTER_ERR"),
        assumptions=sys_assumptions + ["the sequence of blocking raw acquisitions is recorded by the auditing raw locks (world log)"],
        bounds={"pairs": "two sorting collections (boxed/ref, optionally with a nested boxed/ref/retrying member or an owned group) built from two independent symbolic arrangements over the same 6-lock universe",
                "sizes": "2..3 members (quick) / 2..4 (thorough)", "modes": "lock and read"})


def c06(tier, seed):
    from harness import props
    text, names = props.gen_key(tier)
    small = ("s_m", "s_r", "po_m", "po_r", "bx_mr", "rt_mr", "rf_mr", "ow_mr", "bxo_mr", "n_bx_ow", "bx_rr", "rt_rr", "ow_rr", "rf_rr")
    acq_text, acq_names = props.gen_acq(tier, envs=("q",), kinds=lambda sh: sh.name in small)
    return checks.run_mirsym_property(
        "C06", tier, seed, {"h_key.rs": text, "h_acq.rs": acq_text}, codes("M_KEY_MODEL", "M_NO_PANIC", "M_TRY_VERDICT", "M_CLOSURE_COUNT", "M_BAD_RELEASE"),
        opts={"max_paths": 3000000, "entry_timeout": 3600, "sample_p": 0.001 if tier != "quick" else 0.03},
        outcome_kinds=("abort", "unwound", "memory-error", "fatal"),
        assumptions=sys_assumptions + ["reference model: one boolean per thread (key alive); a second modelled thread has its own thread-local storage (natively a real std::thread)"],
        bounds={"history_length": "3 (quick) / 4 (thorough) operations, each followed by a ThreadKey::get() probe whose result is kept or dropped by a symbolic bit",
                "vocabulary": "get, drop, forget, lock+drop, read+unlock, lock+forget(guard), failed try_lock, try_write, scoped lent/owned, scoped lent/owned with panic, guard with panic, poisonable lock (Ok/Err) and with panic, poisonable try_lock+unlock, collection lock+unlock, collection try_lock+forget, second thread, collection scoped owned"})


def c02(tier, seed):
    from harness import props
    text, names = props.gen_data(tier)
    # exclusion also rests on happylock never releasing a lock it does not hold (in that mode): a foreign or
    # wrong-mode release lets another thread into somebody's critical section
    acq_text, acq_names = props.gen_acq(tier, envs=("a",), kinds=lambda sh: (not sh.name.startswith("s_")) and (sh.n() >= 2 or sh.name.startswith("po_")))
    return checks.run_mirsym_property(
        "C02", tier, seed, {"h_data.rs": text, "h_acq.rs": acq_text},
        codes("M_DATA", "M_NOT_HELD_IN_SECTION", "M_HELD_AFTER_ERR", "M_BAD_RELEASE", "M_NOT_ALL_HELD", "M_SELF_WAIT"),
        assumptions=sys_assumptions + [
            "mutual exclusion between threads is the raw lock's contract (lock_api); what is decided here is happylock's part: user code reaches data only while the leaves are held in the requested mode (also C04's M_NOT_HELD_IN_SECTION / M_NOT_ALL_HELD under the adversarial environment) and position i of every guard / closure argument is member i",
            "payload values are symbolic bytes; equality of what is read and what was written is decided by z3"],
        bounds=BOUNDS)


def c16(tier, seed):
    from harness import props
    text, names = props.gen_drop(tier)
    return checks.run_mirsym_property(
        "C16", tier, seed, {"h_drop.rs": text}, codes("M_DROP_COUNT", "M_DATA", "M_DUP_VERDICT", "M_HELD_AFTER_ERR", "M_POISON_MODEL", "M_BLOCKING_IN_TRY"),
        opts={"check_leaks": True},
        assumptions=sys_assumptions + [
            "payload D{id,val} whose Drop bumps a per-id counter; val is a symbolic byte written under a lock",
            "mirsym's heap model reports double free, use after free, out-of-bounds access and allocations still live at the end of a path (confirmed natively with a counting global allocator)"],
        bounds={"shapes": "3-member tuples, arrays, Vec, boxed slice, nested owned/retrying inside boxed, Poisonable, single locks",
                "paths": "plain drop, into_inner, into_child, get_mut, into_iter (partially consumed), extend, try_new accept and reject (duplicate references around an owned member)"})


def c17(tier, seed):
    from harness import props
    text, names = props.gen_nonacq(tier)
    return checks.run_mirsym_property(
        "C17", tier, seed, {"h_nonacq.rs": text}, codes("M_BLOCKING_IN_TRY", "M_STATE_CHANGED", "M_BAD_RELEASE", "M_OTHER", "M_DUP_VERDICT", "M_HELD_AFTER_ERR", "M_SELF_WAIT"),
        assumptions=sys_assumptions + [
            "core::fmt's non-generic builders (Formatter::debug_struct/debug_tuple/..., DebugStruct::field, finish, write_str, pad, integer/pointer formatting) have no MIR and are summarised: every &dyn Debug member is formatted by calling its real Debug::fmt through the vtable, output is discarded; natively the same harness formats with write! into a discarding sink and the raw-operation traces are compared",
            "holders: the environment (symbolic quiescent pre-state) or the calling thread itself through a live guard / a running scoped closure"],
        bounds=BOUNDS)


def c01(tier, seed):
    from harness import props, gen
    from . import c01 as q
    text, names = props.gen_acq(tier, envs=("a",), only_blocking=True,
                                budget=(3 if tier == "quick" else (lambda sh: 4 if sh.n() <= 3 else 3)))
    seq_text, seq_names = props.gen_seq(tier, seed, 48 if tier == "quick" else 240)
    shape_private = {}
    for sh in gen.all_shapes(tier):
        shape_private[sh.name] = {int(i): k for (i, k, _r) in sh.leaves if i.isdigit()}

    def post(results, run):
        t0 = time.time()
        cat, kinds = q.collect_catalogue([r for r in results if r["entry"].startswith("h_acq::")], shape_private)
        lines = []
        cov = {"wait_point_catalogue_size": len(cat), "wait_point_locks": len(kinds), "combination_queries": []}
        sym = sum(r.get("symbolic_waits", 0) for r in results)
        rc = 0
        if sym:
            lines.append("INCONCLUSIVE %d wait events with symbolic lock ids" % sym)
            rc = 2
        if not cat:
            lines.append("INCONCLUSIVE no wait points collected (vacuous)")
            return cov, 2, lines
        smt_cross = {}
        for n in (2, 3, 4):
            verdict, dt, model, smt2 = q.deadlock_query(cat, n)
            cov["combination_queries"].append({"threads": n, "verdict": verdict, "solver_s": round(dt, 2)})
            common.log("[C01] combination query N=%d over %d wait points: %s (%.1fs)" % (n, len(cat), verdict, dt))
            if n in (2, 3):
                smt_cross[n] = (smt2, verdict)
            if verdict == "sat":
                path = os.path.join(common.EVIDENCE_DIR, "replays", "C01-deadlock-N%d.json" % n)
                os.makedirs(os.path.dirname(path), exist_ok=True)
                confirmed = q.confirm_deadlock(run, model) if hasattr(q, "confirm_deadlock") else None
                with open(path, "w") as fh:
                    json.dump({"property": "C01", "kind": "deadlock-state", "threads": n, "natively_confirmed": bool(confirmed), "model": model}, fh, indent=1)
                if confirmed:
                    lines.append("VIOLATION property=C01 replay=%s" % path)
                    rc = 1
                else:
                    lines.append("UNCONFIRMED deadlock candidate (N=%d): %s" % (n, json.dumps(model)[:600]))
                    rc = max(rc, 2) if rc != 1 else 1
                break
            if verdict != "unsat":
                lines.append("INCONCLUSIVE combination query N=%d: %s" % (n, verdict))
                rc = max(rc, 2)
        if smt_cross and (tier != "quick" or os.environ.get("VERIF_CROSS")):
            # the same queries through other solvers; only a definite contradiction counts, a timeout is reported
            cov["solver_cross_check"] = {}
            for n, (smt2, verdict) in smt_cross.items():
                res = q.cross_check(smt2, "n%d" % n, timeout=120 if n == 2 else 240)
                cov["solver_cross_check"]["N=%d" % n] = res
                for name, v in res.items():
                    if v in ("sat", "unsat") and v != verdict:
                        lines.append("INCONCLUSIVE solver %s says %s on the N=%d query, z3 5.1 says %s" % (name, v, n, verdict))
                        rc = max(rc, 2)
        cov["wait_point_samples"] = [{"awaits": k[0], "mode": "X" if k[1] == 0 else "S", "holds_x": sorted(k[2]), "holds_s": sorted(k[3]),
                                      "from": sorted(v)[:2]} for k, v in list(sorted(cat.items(), key=lambda kv: (len(kv[0][2]) + len(kv[0][3])), reverse=True))[:5]]
        cov["combination_time_s"] = round(time.time() - t0, 2)
        return cov, rc, lines

    return checks.run_mirsym_property(
        "C01", tier, seed, {"h_acq.rs": text, "h_seq.rs": seq_text},
        codes("M_SELF_WAIT", "M_HELD_AT_API_BEGIN", "M_HELD_AT_KEY_BACK", "M_KEY_MODEL", "M_HOLD_AND_WAIT"),
        opts={"collect_waits": True, "entry_timeout": 300 if tier == "quick" else 3000},
        assumptions=sys_assumptions + [
            "thread-modular argument: every thread is analysed alone against an adversarial environment (any lock it does not hold may be held by others at any raw operation), which over-approximates its behaviour in every interleaving with any other threads; a deadlock state is a choice of one wait point per thread with compatible holdings in which every awaited lock is unavailable because of the other waiting threads",
            "between acquisitions a thread holds nothing (C03, checked on the same runs), so threads with several acquisitions contribute the union of their wait points; critical sections terminate and guards are dropped (premises of the statement)",
            "RwLock wake policy is a symbolic Boolean in the query (reader blocked by a holder-writer, or - writer-preferring - by a queued writer while the lock is read-held)",
            "interference budget per acquisition: 3 (quick) / 4 (thorough) busy answers; sorted collections wait at most once per member, the retrying collection's wait points are round-independent"],
        bounds=dict(BOUNDS, threads="2..4 per combination query (symmetry-reduced)", single_thread_histories="48 (quick) / 240 (thorough) seeded pairs A;B;A of complete API calls over shapes sharing locks"),
        post=post)


PROPS = {"C13": c13, "C01": c01, "C17": c17, "C16": c16, "C02": c02, "C06": c06, "C08": c08, "C07": c07, "C10": c10, "C11": c11, "C12": c12, "C04": c04, "C05": c05, "C03": c03, "C09": c09}
