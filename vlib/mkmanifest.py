"""Writes MANIFEST.json from the table of claimed properties (single source of truth)."""
import json
import os

from . import common

CLAIMED = {
    # pid: (technique, level text, level note, design ref)
}

NOT_APPLICABLE = {
    "C14": "statement about programs rejected by rustc (type-system verdicts); there is no execution to make symbolic and no assertion for a solver - outside solver-based checking of the code (DESIGN.md section 3, C14)",
    "C15": "statement about programs rejected by rustc (type-system verdicts); outside solver-based checking of the code (DESIGN.md section 3, C15)",
}


def claim(pid, technique, text, note, ref):
    CLAIMED[pid] = (technique, text, note, ref)


def write(pending_reason="check not built yet (work in progress)"):
    props = [json.loads(l) for l in open(os.path.join(common.VERIF, "properties.jsonl"))]
    checks = []
    na = []
    for p in props:
        pid = p["id"]
        if pid in CLAIMED:
            tech, text, note, ref = CLAIMED[pid]
            checks.append({
                "property_id": pid,
                "quick_cmd": "./check %s --tier quick" % pid,
                "thorough_cmd": "./check %s --tier thorough" % pid,
                "evidence_file": "evidence/%s.json" % pid,
                "replay_cmd_template": "./check %s --replay {path}" % pid,
                "engine": "mirsym",
                "level_claimed": {"category": "model_checking", "text": text, "design_ref": ref},
                "level_note": note,
                "technique": tech,
            })
        else:
            na.append({"property_id": pid, "reason": NOT_APPLICABLE.get(pid, pending_reason)})
    m = {
        "version": 1,
        "setup_cmd": "./setup.sh",
        "hooks": {
            "guard": "none (no source hooks: every check copies /repo/{src,Cargo.toml,Cargo.lock} to a scratch directory and appends a cfg-guarded harness module there)",
            "enable": "scratch copy built with --cfg verif_mir (MIR dump), --cfg verif_replay (native replay) or under cargo kani (cfg(kani))",
            "baseline_off_cmd": "cd /repo && cargo test --workspace --no-fail-fast --offline",
            "source_commits": [],
            "add_only": True,
        },
        "engines": [
            {"name": "mirdump", "path": "engines/mirdump", "serves_properties": sorted(CLAIMED),
             "kind_free_text": "rustc_public driver dumping monomorphic MIR, layouts, vtables, drop glue of everything reachable from the harness entry points (regenerated from /repo on every run)"},
            {"name": "mirsym", "path": "engines/mirsym", "serves_properties": sorted(CLAIMED),
             "kind_free_text": "path-forking symbolic executor of the dumped MIR with unwinding; z3 decides branch feasibility, monitor assertions and produces counterexample models"},
            {"name": "replay", "path": "harness/replay_main.rs", "serves_properties": sorted(CLAIMED),
             "kind_free_text": "native replay of every counterexample and of sampled passing paths (event-trace comparison) - not a deciding step"},
        ],
        "checks": checks,
        "not_applicable": na,
        "notes": "Solver-based checking of the real code; see DESIGN.md. Exit codes: 0 held, 1 confirmed violation (VIOLATION line), 2 inconclusive.",
    }
    with open(os.path.join(common.VERIF, "MANIFEST.json"), "w") as fh:
        json.dump(m, fh, indent=1)
    return m
