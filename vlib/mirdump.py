"""Build and run the mirdump rustc driver on a scratch copy."""
import glob
import json
import os
import subprocess
import time

from . import common

MIRDUMP_DIR = os.path.join(common.VERIF, "engines", "mirdump")
MIRDUMP_BIN = os.path.join(MIRDUMP_DIR, "target", "debug", "mirdump")


# std items that are summarised instead of interpreted (set semantics; RandomState needs OS randomness)
SKIP = ["std::collections::HashSet::<", "std::collections::HashSet<", "hashbrown::", "std::hash::RandomState",
        "std::collections::HashMap<", "std::collections::HashMap::<"]


def nightly_lib():
    c = glob.glob(os.path.expanduser("~/.rustup/toolchains/nightly-x86_64-unknown-linux-gnu/lib"))
    return c[0]


def build():
    if os.path.exists(MIRDUMP_BIN) and os.path.getmtime(MIRDUMP_BIN) >= os.path.getmtime(os.path.join(MIRDUMP_DIR, "src", "main.rs")):
        return
    r = subprocess.run(["cargo", "+nightly", "build", "--offline"], cwd=MIRDUMP_DIR, env=common.env_offline(),
                       stdout=subprocess.PIPE, stderr=subprocess.STDOUT, text=True)
    if r.returncode != 0:
        raise RuntimeError("mirdump build failed:\n" + r.stdout[-4000:])


def dump(scratch, out, only=None, extra_cfg=()):
    build()
    env = common.env_offline({
        "RUSTC_WRAPPER": MIRDUMP_BIN,
        "LD_LIBRARY_PATH": nightly_lib() + ":" + os.environ.get("LD_LIBRARY_PATH", ""),
        "MIRDUMP_OUT": out,
        "RUSTFLAGS": "--cfg verif_mir -Zalways-encode-mir -C debug-assertions=off -C overflow-checks=on -Awarnings "
                     + " ".join("--cfg " + c for c in extra_cfg),
        "RUSTUP_TOOLCHAIN": "nightly",
        "MIRDUMP_SKIP": ",".join(SKIP),
    })
    if only:
        env["MIRDUMP_ONLY"] = only
    t0 = time.time()
    r = subprocess.run(["cargo", "+nightly", "check", "--offline", "--lib", "--target-dir", os.path.join(scratch, "target-mir")],
                       cwd=scratch, env=env, stdout=subprocess.PIPE, stderr=subprocess.STDOUT, text=True)
    if r.returncode != 0 or not os.path.exists(out):
        raise RuntimeError("mirdump run failed:\n" + r.stdout[-6000:])
    return time.time() - t0, r.stdout
