import argparse
import os
import sys
import time

from . import common


def main():
    ap = argparse.ArgumentParser()
    ap.add_argument("pid")
    ap.add_argument("--tier", default=os.environ.get("VERIF_TIER", "quick"))
    ap.add_argument("--replay", default=None)
    a = ap.parse_args()
    seed = int(os.environ.get("VERIF_SEED", "0") or 0)
    from . import properties
    if a.replay:
        from . import replaycmd
        sys.exit(replaycmd.replay(a.pid, a.replay))
    fn = properties.PROPS.get(a.pid)
    if fn is None:
        print("unknown or not-applicable property", a.pid)
        sys.exit(2)
    rc = fn(a.tier, seed)
    sys.exit(rc)


if __name__ == "__main__":
    main()
