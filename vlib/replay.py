"""Native replay: build the scratch copy with --cfg verif_replay and run entry points on concrete inputs."""
import os
import subprocess
import time

from . import common


def build(scratch, release=False):
    env = common.env_offline({"RUSTFLAGS": "--cfg verif_replay -Awarnings"})
    cmd = ["cargo", "build", "--offline", "--bin", "verif_replay", "--target-dir", os.path.join(scratch, "target-replay")]
    if release:
        cmd.append("--release")
    t0 = time.time()
    r = subprocess.run(cmd, cwd=scratch, env=env, stdout=subprocess.PIPE, stderr=subprocess.STDOUT, text=True)
    if r.returncode != 0:
        raise RuntimeError("replay build failed:\n" + r.stdout[-6000:])
    return os.path.join(scratch, "target-replay", "release" if release else "debug", "verif_replay"), time.time() - t0


def run(binary, entry, inputs, timeout=10.0):
    """-> dict(outcome, events, violated, diverged, raw)"""
    arg = ",".join("%d:%d" % (t, v) for (t, v) in inputs)
    try:
        r = subprocess.run([binary, entry, arg], stdout=subprocess.PIPE, stderr=subprocess.DEVNULL, text=True, timeout=timeout)
        out = r.stdout
        rc = r.returncode
    except subprocess.TimeoutExpired as e:
        out = e.stdout.decode() if isinstance(e.stdout, bytes) else (e.stdout or "")
        rc = "timeout"
    events = []
    violated = []
    outcome = None
    diverged = False
    live = None
    for line in out.splitlines():
        p = line.split()
        if not p:
            continue
        if p[0] == "EV":
            events.append((int(p[1]), int(p[2]), int(p[3])))
        elif p[0] == "VIOLATED":
            violated.append(int(p[1]))
        elif p[0] == "OUTCOME":
            outcome = p[1]
        elif p[0] == "DIVERGED":
            diverged = True
        elif p[0] == "LIVE-ALLOCS":
            live = int(p[1])
        elif p[0] == "ASSUME-FAILED":
            outcome = "assume-false"
    if rc == "timeout":
        outcome = "hang"
    elif isinstance(rc, int) and rc < 0:
        outcome = "abort" if rc == -6 else "signal%d" % (-rc)
    elif outcome is None:
        outcome = "exit%s" % rc
    return {"outcome": outcome, "events": events, "violated": violated, "diverged": diverged, "rc": rc, "live": live}
