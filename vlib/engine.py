"""Orchestration of a mirsym run: scratch copy, MIR dump, parallel symbolic exploration of entry points,
native replay of every counterexample and of a sample of passing paths."""
import concurrent.futures
import json
import multiprocessing
import os
import random
import subprocess
import sys
import time

from . import common, mirdump, replay

_PROG = None
_PROG_PATH = None


def _load(dump_path):
    global _PROG, _PROG_PATH
    if _PROG_PATH != dump_path:
        sys.path.insert(0, common.VERIF)
        from engines.mirsym.program import Program
        _PROG = Program(dump_path)
        _PROG_PATH = dump_path
    return _PROG


def _eval_trace(trace, model):
    out = []
    import z3
    for e in trace:
        if e[0] != "ev":
            continue
        vals = []
        for x in e[1:]:
            if isinstance(x, int):
                vals.append(x)
            else:
                vals.append(model.eval(x, model_completion=True).as_long())
        out.append(tuple(vals))
    return out


def explore_entry(args):
    """worker: explore one entry point.  Returns a JSON-able summary."""
    dump_path, entry, opts = args
    prog = _load(dump_path)
    from engines.mirsym.interp import Interp
    it = Interp(prog, max_steps=opts.get("max_steps", 3000000), max_paths=opts.get("max_paths", 100000))
    full = "happylock::verif_harness::" + entry
    import zlib
    rng = random.Random(opts.get("seed", 0) * 1000003 + zlib.crc32(entry.encode()) % 1000003)
    sample_p = opts.get("sample_p", 0.05)
    res = {"entry": entry, "paths": [], "outcomes": {}, "violations": [], "samples": [], "marks": {}, "error": None}
    t0 = time.time()
    deadline = t0 + opts.get("entry_timeout", 600)
    npaths = [0]
    collect_waits = opts.get("collect_waits", False)
    waits = set()
    wait_examples = {}

    def on_done(st):
        npaths[0] += 1
        o = st.outcome
        res["outcomes"][o] = res["outcomes"].get(o, 0) + 1
        for e in st.trace:
            if e[0] == "ev" and e[1] == 106 and isinstance(e[2], int):
                res["marks"][str(e[2])] = res["marks"].get(str(e[2]), 0) + 1
            elif e[0] == "ev" and e[1] == 102 and collect_waits:
                a, b = e[2], e[3]
                if isinstance(a, int) and isinstance(b, int):
                    wt = (a & 0xFF, (a >> 8) & 1, b & 0xFFFF, (b >> 16) & 0xFFFF)
                    waits.add(wt)
                    # keep one example path per wait point, preferring paths without earlier interference
                    clean = not any(x[0] == "ev" and x[1] == 102 for x in st.trace[:st.trace.index(e)])
                    if wt not in wait_examples or (clean and not wait_examples[wt][1]):
                        try:
                            m = it.model(st)
                        except Exception:
                            m = None
                        if m is not None:
                            wait_examples[wt] = (m[0], clean)
                else:
                    res["symbolic_waits"] = res.get("symbolic_waits", 0) + 1
        if o in ("assume-false", "infeasible"):
            return
        if opts.get("check_leaks") and o == "return" and st.heap_live != 0:
            st.violations.append({"code": 19, "inputs": None, "spans": ["heap allocations still live at the end of the path: %d" % st.heap_live], "heap_leak": True})
        bad = o not in ("return",)
        need_model = bool(st.violations) or bad or rng.random() < sample_p or npaths[0] <= 2
        if not need_model:
            return
        try:
            m = it.model(st)
        except Exception as e:  # solver unknown
            m = None
        if m is None:
            if bad or st.violations:
                res["paths"].append({"outcome": o, "detail": st.detail, "inputs": None, "violations": [v["code"] for v in st.violations]})
            return
        inputs, model = m
        rec = {"outcome": o, "detail": st.detail, "inputs": inputs, "events": _eval_trace(st.trace, model),
               "violations": [{"code": v["code"], "spans": v.get("spans"), "inputs": v.get("inputs"), "heap_leak": v.get("heap_leak", False)} for v in st.violations],
               "steps": st.steps}
        if bad or st.violations:
            res["paths"].append(rec)
        else:
            if len(res["samples"]) < opts.get("max_samples", 40):
                res["samples"].append(rec)

    try:
        it.explore(full, on_done=on_done, deadline=deadline)
    except Exception as e:
        import traceback
        res["error"] = "%s: %s\n%s" % (type(e).__name__, e, traceback.format_exc()[-1500:])
    res["waits"] = sorted(waits)
    res["wait_examples"] = [[list(k), v[0], v[1]] for k, v in wait_examples.items()]
    res["stats"] = it.stats
    res["fns"] = len(it.fns_executed)
    res["fn_names"] = sorted(set(prog.fns[f]["def_name"][:140] for f in it.fns_executed
                                 if prog.fns[f].get("local") and "verif_harness" not in prog.fns[f]["def_name"]))[:400]
    res["summaries"] = sorted(it.summaries_used)
    res["wall_s"] = time.time() - t0
    return res


class MirRun(object):
    """one scratch copy + dump + replay binary"""

    def __init__(self, tag, harness_files, need_replay=True, release=False, dump=True):
        self.tag = tag
        self.harness_files = dict(harness_files)
        with open(os.path.join(common.HARNESS_DIR, "prelude.rs")) as fh:
            self.harness_files.setdefault("prelude.rs", fh.read())
        self.scratch = common.make_scratch(tag, self.harness_files)
        self.dump_path = os.path.join(self.scratch, "mirdump.json")
        self.replay_bin = None
        self.replay_bin_rel = None
        self.timings = {}
        t0 = time.time()
        with concurrent.futures.ThreadPoolExecutor(3) as ex:
            fd = ex.submit(mirdump.dump, self.scratch, self.dump_path) if dump else None
            fr = ex.submit(replay.build, self.scratch, False) if need_replay else None
            frr = ex.submit(replay.build, self.scratch, True) if (need_replay and release) else None
            if fd is not None:
                self.timings["dump_s"], self.dump_log = fd.result()
            if fr is not None:
                self.replay_bin, self.timings["replay_build_s"] = fr.result()
            if frr is not None:
                self.replay_bin_rel, self.timings["replay_build_release_s"] = frr.result()
        self.timings["prepare_s"] = time.time() - t0
        if not dump:
            self.entries = []
            return
        with open(self.dump_path) as fh:
            d = json.load(fh)
        declared = set()
        for fname, text in self.harness_files.items():
            if fname == "prelude.rs":
                continue
            for fn in common.entry_names(text):
                declared.add("%s::%s" % (fname[:-3], fn))
        self.entries = sorted(k.replace("happylock::verif_harness::", "") for k in d["entries"]
                              if k.replace("happylock::verif_harness::", "") in declared)
        self.n_fns = len(d["fns"])
        self.n_bodies = sum(1 for f in d["fns"] if f["body"] is not None)
        self.n_blocks = sum(len(f["body"]["blocks"]) for f in d["fns"] if f["body"] is not None)
        self.local_fns = sorted(set(f["name"][:160] for f in d["fns"] if f.get("local") and f["body"] is not None
                                    and "verif_harness" not in f["name"]))
        del d

    def explore(self, entries, opts, jobs=None):
        jobs = jobs or common.ncpu()
        args = [(self.dump_path, e, opts) for e in entries]
        results = []
        if jobs == 1 or len(args) == 1:
            for a in args:
                results.append(explore_entry(a))
            return results
        ctx = multiprocessing.get_context("fork")
        with ctx.Pool(min(jobs, len(args))) as pool:
            for r in pool.imap_unordered(explore_entry, args, chunksize=1):
                results.append(r)
        return results

    def native(self, entry, inputs, timeout=10.0, release=False):
        b = self.replay_bin_rel if release else self.replay_bin
        return replay.run(b, entry, inputs, timeout)

    def close(self):
        common.remove_scratch(self.scratch)


def compare_trace(sym_events, native_events):
    """event traces must agree exactly"""
    if len(sym_events) != len(native_events):
        return False, "length %d vs %d" % (len(sym_events), len(native_events))
    for i, (a, b) in enumerate(zip(sym_events, native_events)):
        if tuple(a) != tuple(b):
            return False, "event %d: %r vs %r" % (i, a, b)
    return True, ""
