"""Generic property-check driver on top of the mirsym engine (+ optional Kani part)."""
import json
import os
import sys
import time

from . import common, engine

INCONCLUSIVE = ("unsupported", "engine-error", "solver-unknown", "budget", "timeout")
CODES = common.parse_codes()
CODE_NAMES = {v: k for k, v in CODES.items() if k.startswith("M_")}


def code_name(c):
    return CODE_NAMES.get(c, "M_%s" % c)


class Finding(object):
    def __init__(self, pid, kind, entry, code, inputs, detail, spans, native):
        self.pid = pid
        self.kind = kind          # monitor name or outcome kind (abort / unwound / memory-error)
        self.entry = entry
        self.code = code
        self.inputs = inputs
        self.detail = detail
        self.spans = spans or []
        self.native = native

    def key(self):
        """role-based key: violation kind + shape family + api; values of inputs are not part of it"""
        return "%s|%s" % (self.kind, self.entry)


KNAMES = {0: "lock", 1: "try", 2: "unlock", 3: "lock", 4: "try", 5: "unlock"}


def classify(entry, kind, events):
    """role of a counterexample (not its values): which kind of collection / API flavour, which class of
    raw operation faulted and in which phase of the call (acquire / section / release)"""
    import re
    m = re.match(r"h_(\w+?)::(\w+?)__(\w+?)__(\w+)", entry)
    role = {"monitor": kind, "harness": None, "family": None, "api": None, "style": None, "blocking": None,
            "fault_op": None, "phase": None}
    if m:
        shape, api = m.group(2), m.group(3)
        role["harness"] = m.group(1)
        role["api"] = api
        role["style"] = "scoped" if api.startswith("scoped") else "guard"
        role["blocking"] = "try" not in api
        if shape.startswith("s_"):
            fam = "single"
        elif shape.startswith("po_"):
            fam = "poisonable"
        elif shape.startswith("n_"):
            fam = "nested:" + shape[2:]
        elif shape.startswith("rt"):
            fam = "retry"
        elif shape.startswith("ow"):
            fam = "owned"
        else:
            fam = "sorted"
        role["family"] = fam
    routes = {0: "own_lock", 1: "own_try_lock", 2: "own_scoped_lock", 3: "own_scoped_try_lock", 4: "own_read", 5: "own_scoped_read",
              6: "coll_lock", 7: "coll_try_lock", 8: "coll_scoped_lock", 9: "coll_scoped_try_lock", 10: "coll_read", 11: "coll_scoped_read"}
    last_route = None
    for (c, a, b) in events:
        if c == 106 and 9100 <= a < 9199:
            last_route = routes.get(a - 9100)
        elif c == 106 and a == 9199:
            last_route = "final"
        elif c == 999:
            break
    role["route"] = last_route
    phase = "acquire"
    nfault = 0
    role["release_fault_during_recovery"] = False
    for (c, a, b) in events:
        if c == 106 and a == 9011:
            phase = "section"
        elif c == 106 and a == 9012:
            phase = "release"
        elif c == 103 or c == 104:
            nfault += 1
            op = KNAMES.get(a, str(a)) if c == 103 else "user"
            if nfault == 1:
                role["fault_op"] = op
                role["phase"] = phase
            elif op == "unlock":
                # a release panicked while an earlier panic was already being handled
                role["release_fault_during_recovery"] = True
    return role


def match_known(finding, known):
    role = finding.role
    for k in known:
        if k.get("status") != "open" or k.get("property") != finding.pid:
            continue
        alts = k.get("match_any") or [k.get("match") or {}]
        for alt in alts:
            ok = True
            for field, allowed in alt.items():
                v = role.get(field)
                if isinstance(allowed, list):
                    if v not in allowed:
                        ok = False
                elif v != allowed:
                    ok = False
            if ok:
                return k
    return None


MULTI_ALLOC_MARKS = ("rf7_", "n_bx_ow", "n_rt_ow", "n_bx_po", "bx_pm", "bx_pr", "rt_pm", "rf_pr", "ow_pm", "dupw_", "_owned", "na_dbgpanic",
                     "drop_boxed_reject", "drop_retry_reject")


def multi_alloc(entry):
    """entries whose locks live in more than one allocation: the order of raw operations may legitimately depend on
    the relative addresses of those allocations, which differ between engines; their traces are compared as multisets"""
    return any(m in entry for m in MULTI_ALLOC_MARKS)


def _fault_sig(events):
    ph = 0
    for e in events or []:
        if e[0] == 106 and e[1] in (9011, 9012):
            ph = e[1]
        if e[0] in (103, 104):
            return (e[0], e[1], ph)
    return None


def run_mirsym_property(pid, tier, seed, harness_files, relevant_codes, outcome_kinds=("abort", "unwound", "memory-error", "fatal"),
                        entry_filter=None, opts=None, expect_marks=("9003",), assumptions=(), bounds=None, design_ref=None,
                        extra_coverage=None, per_entry_expect=None, title="", post=None):
    """runs the exploration, native confirmation and validation; writes evidence; returns exit code"""
    t0 = time.time()
    opts = dict(opts or {})
    opts.setdefault("seed", seed)
    opts.setdefault("sample_p", 0.03 if tier == "quick" else 0.08)
    opts.setdefault("entry_timeout", 300 if tier == "quick" else 1500)
    run = engine.MirRun(pid.lower(), harness_files, need_replay=True, release=(tier != "quick"))
    known = common.load_known_findings()
    try:
        entries = [e for e in run.entries if (entry_filter is None or entry_filter(e))]
        common.log("[%s] %d entry points, %d fns in dump (%d blocks); prepare %.1fs" % (pid, len(entries), run.n_fns, run.n_blocks, run.timings["prepare_s"]))
        results = run.explore(entries, opts)
        agg = {"paths": 0, "steps": 0, "queries": 0, "solver_s": 0.0, "forks": 0, "raw_ops": 0, "checks": 0}
        outcomes = {}
        inconclusive = []
        candidates = []
        samples = []
        vacuous = []
        other_codes = {}
        fn_names = set()
        summaries = set()
        for r in results:
            for k in agg:
                agg[k] += r["stats"].get(k, 0)
            fn_names.update(r.get("fn_names", []))
            summaries.update(r.get("summaries", []))
            for o, n in r["outcomes"].items():
                outcomes[o] = outcomes.get(o, 0) + n
            if r["error"]:
                inconclusive.append((r["entry"], "engine exception", r["error"]))
            for p in r["paths"]:
                o = p["outcome"]
                if o in INCONCLUSIVE:
                    inconclusive.append((r["entry"], o, p.get("detail")))
                    continue
                if o in outcome_kinds:
                    candidates.append((r["entry"], o, None, p))
                for v in p.get("violations", []):
                    if v["code"] in relevant_codes:
                        candidates.append((r["entry"], "heap-leak" if v.get("heap_leak") else code_name(v["code"]), v["code"],
                                           dict(p, inputs=v.get("inputs") or p["inputs"], spans=v.get("spans"), heap_leak=v.get("heap_leak"))))
                    else:
                        other_codes[code_name(v["code"])] = other_codes.get(code_name(v["code"]), 0) + 1
            for s in r["samples"]:
                samples.append((r["entry"], s))
            exp = per_entry_expect(r["entry"]) if per_entry_expect else expect_marks
            for mk in exp:
                if not r["marks"].get(mk):
                    vacuous.append((r["entry"], mk))
        # ---- native validation of passing paths (translator validation) ----
        validated = 0
        mismatches = []
        for entry, s in samples:
            nat = run.native(entry, s["inputs"])
            if entry.endswith("_uo") or multi_alloc(entry):
                # the order of raw operations depends on the relative addresses of separate allocations
                ok, why = engine.compare_trace(sorted(s["events"]), sorted(nat["events"]))
            else:
                ok, why = engine.compare_trace(s["events"], nat["events"])
            if nat["outcome"] != s["outcome"] or nat["violated"] or nat["diverged"]:
                ok, why = False, "outcome %s vs %s violated=%s diverged=%s" % (s["outcome"], nat["outcome"], nat["violated"], nat["diverged"])
            if ok:
                validated += 1
            else:
                mismatches.append((entry, why, s["inputs"]))
        # ---- native confirmation of counterexamples ----
        confirmed = []
        unconfirmed = []
        seen = set()
        os.makedirs(os.path.join(common.EVIDENCE_DIR, "replays"), exist_ok=True)
        for entry, kind, code, p in candidates:
            dk = (entry, kind, _fault_sig(p.get("events")))
            if dk in seen:
                continue
            if p.get("inputs") is None:
                unconfirmed.append((entry, kind, "no model"))
                continue
            nat = run.native(entry, p["inputs"])
            if p.get("heap_leak"):
                ok = (nat.get("live") or 0) > 0
            elif code is not None:
                ok = code in nat["violated"]
            elif kind == "memory-error":
                ok = nat["outcome"] in ("abort", "signal11", "signal7", "signal4")
            else:
                ok = nat["outcome"] == kind
            if ok and run.replay_bin_rel:
                nat_rel = run.native(entry, p["inputs"], release=True)
                rel_ok = ((nat_rel.get("live") or 0) > 0) if p.get("heap_leak") else ((code in nat_rel["violated"]) if code is not None else (nat_rel["outcome"] == nat["outcome"]))
            else:
                rel_ok = None
            if not ok:
                unconfirmed.append((entry, kind, "native outcome %s violated %s" % (nat["outcome"], nat["violated"])))
                continue
            seen.add(dk)
            f = Finding(pid, kind, entry, code, p["inputs"], p.get("detail"), p.get("spans"), nat)
            f.release_ok = rel_ok
            f.role = classify(entry, kind, nat["events"])
            confirmed.append(f)
        viol_lines = []
        known_lines = []
        known_hits = {}
        n_new = 0
        for i, f in enumerate(confirmed):
            k = match_known(f, known)
            if k is not None:
                known_lines.append("KNOWN-FINDING: property=%s %s" % (pid, k.get("what", "")))
                known_hits[k.get("id", "?")] = known_hits.get(k.get("id", "?"), 0) + 1
                continue
            n_new += 1
            path = os.path.join(common.EVIDENCE_DIR, "replays", "%s-%d.json" % (pid, n_new))
            with open(path, "w") as fh:
                json.dump({"property": pid, "entry": f.entry, "kind": f.kind, "monitor": f.code, "inputs": f.inputs, "role": f.role,
                           "detail": f.detail, "spans": f.spans, "native_outcome": f.native["outcome"],
                           "native_events": f.native["events"][-60:], "release_profile_reproduces": f.release_ok,
                           "replay_cmd": "./check %s --replay %s" % (pid, path)}, fh, indent=1)
            viol_lines.append("VIOLATION property=%s replay=%s" % (pid, path))
            common.log("  violation: %s in %s role=%s inputs=%s" % (f.kind, f.entry, f.role, f.inputs))
        for l in sorted(set(known_lines)):
            print(l)
        for l in viol_lines[:25]:
            print(l)
        if len(viol_lines) > 25:
            print("... and %d more violations (replay files written for all)" % (len(viol_lines) - 25))
        shown = set()
        for (e, o, d) in inconclusive:
            line = "INCONCLUSIVE %s: %s %s" % (e, o, (d or "")[:300])
            if (o, (d or "")[:120]) in shown or len(shown) > 12:
                continue
            shown.add((o, (d or "")[:120]))
            print(line)
        for (e, why, inp) in mismatches[:10]:
            print("INCONCLUSIVE translator mismatch in %s: %s inputs=%s" % (e, why, inp))
        for (e, k, why) in unconfirmed[:10]:
            print("UNCONFIRMED %s %s: %s" % (e, k, why))
        for (e, mk) in vacuous[:10]:
            print("INCONCLUSIVE vacuity: %s never reached mark %s" % (e, mk))
        wall = time.time() - t0
        cov = {
            "states": agg["raw_ops"] + agg["forks"] + agg["paths"],
            "transitions": agg["steps"],
            "traces_validated_against_impl": validated,
            "samples": [{"entry": e, "inputs": s["inputs"], "events": s["events"][:40], "outcome": s["outcome"]} for e, s in samples[:3]]
                       or [{"entry": entries[0] if entries else None}],
            "exhaustive": not inconclusive,
            "paths": agg["paths"],
            "path_outcomes": outcomes,
            "entry_points": len(entries),
            "raw_lock_operations_executed_symbolically": agg["raw_ops"],
            "monitor_assertions_decided": agg["checks"],
            "solver_queries": agg["queries"],
            "solver_time_s": round(agg["solver_s"], 2),
            "forks": agg["forks"],
            "functions_encoded": sorted(fn_names)[:300],
            "functions_in_dump": run.n_fns,
            "basic_blocks_in_dump": run.n_blocks,
            "summaries_used": sorted(summaries),
            "bounds": bounds or {},
            "violations_confirmed": len(confirmed),
            "known_findings_hit": known_hits,
            "unconfirmed_candidates": len(unconfirmed),
            "translator_mismatches": len(mismatches),
            "inconclusive": [list(x)[:2] + [(x[2] or "")[:200]] for x in inconclusive[:20]],
            "other_property_observations": other_codes,
            "timings": run.timings,
            "engine": "mirsym (symbolic execution of rustc monomorphic MIR) + z3 %s; native replay" % _z3_version(),
        }
        if extra_coverage:
            cov.update(extra_coverage)
        post_rc = 0
        if post is not None:
            pcov, post_rc, plines = post(results, run)
            cov.update(pcov)
            for l in plines:
                print(l)
            if post_rc == 1:
                n_new += 1
        common.write_evidence(pid, tier, seed, cov, list(assumptions), wall, n_new)
        common.log("[%s] paths=%d steps=%d queries=%d validated=%d confirmed=%d new=%d inconclusive=%d wall=%.1fs" % (
            pid, agg["paths"], agg["steps"], agg["queries"], validated, len(confirmed), n_new, len(inconclusive), wall))
        if n_new:
            return 1
        if inconclusive or mismatches or unconfirmed or vacuous or post_rc == 2:
            return 2
        return 0
    finally:
        run.close()


def _z3_version():
    try:
        import z3
        return z3.get_version_string()
    except Exception:
        return "?"
