"""writes seeded/README.md from seeded/*/meta.json"""
import glob
import json
import os

from . import common


def main():
    rows = []
    for mp in sorted(glob.glob(os.path.join(common.VERIF, "seeded", "*", "meta.json"))):
        m = json.load(open(mp))
        name = m["name"]
        res = m.get("check_results", {})
        cells = []
        for p, c in sorted(res.items()):
            verdict = {0: "missed (exit 0)", 1: "**caught** (exit 1, %d VIOLATION lines)" % c["violation_lines"], 2: "inconclusive (exit 2)"}.get(c["exit"], "exit %s" % c["exit"])
            cells.append("%s: %s, %d s" % (p, verdict, c["seconds"]))
        first = (m.get("needs_to_manifest_and_author_notes") or "").strip().splitlines()
        rows.append((name, m["breaks_property"], "; ".join(cells), m.get("note", "")))
    out = ["# Seeded breaking changes", "",
           "Each directory holds `patch.diff` (apply with `git -C /repo apply`), `demo.rs` (an integration test that fails with the change and passes without) and `meta.json` (what it needs to manifest, what was run, which checks were run against it and their outcome). The changes were written by sub-agents that saw only the property text; every one was re-confirmed here: it applies to the current /repo tree, the 192 tests still pass with it, the demonstration fails with it and passes without it.",
           "", "| change | breaks | checks run against it (quick tier) | note |", "|---|---|---|---|"]
    for r in rows:
        out.append("| `%s` | %s | %s | %s |" % r)
    refs = sorted(glob.glob(os.path.join(common.VERIF, "seeded", "refactorings", "*", "meta.json")))
    if refs:
        out += ["", "# Behaviour-preserving refactorings (false-alarm test)", "",
                "`refactorings/<name>/patch.diff`: non-trivial restructurings written by sub-agents that were asked to keep every observable behaviour (including panic paths). The 192 tests pass with each; the listed checks were run against each and must exit 0 (no alarm, no unsupported construct).",
                "", "| refactoring | suite | checks (quick tier) |", "|---|---|---|"]
        for mp in refs:
            m = json.load(open(mp))
            cells = ", ".join("%s: exit %d" % (p, c["exit"]) for p, c in m["checks"].items())
            out.append("| `%s` | %s | %s |" % (m["name"], "pass" if m.get("suite_passes") else "FAIL", cells))
    with open(os.path.join(common.VERIF, "seeded", "README.md"), "w") as fh:
        fh.write("\n".join(out) + "\n")
    print("\n".join(out))


main()
