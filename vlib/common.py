"""Shared infrastructure: scratch copies of /repo with the harness module appended, evidence
writing, known findings, small helpers.  Nothing here decides a property."""
import atexit
import hashlib
import json
import os
import re
import shutil
import subprocess
import sys
import time

VERIF = os.path.dirname(os.path.dirname(os.path.abspath(__file__)))
REPO = os.environ.get("VERIF_REPO", "/repo")
SCRATCH_ROOT = os.environ.get("VERIF_SCRATCH", "/var/tmp")
HARNESS_DIR = os.path.join(VERIF, "harness")
EVIDENCE_DIR = os.environ.get("VERIF_EVIDENCE_DIR") or os.path.join(VERIF, "evidence")
CACHE_DIR = os.path.join(VERIF, ".cache")

LIB_APPEND = (
    "\n// ---- appended by /verif (scratch copy only) ----\n"
    "#[cfg(any(kani, verif_mir, verif_replay))]\n#[macro_use]\npub mod verif_harness;\n"
)
RWLOCK_APPEND = (
    "\n// ---- appended by /verif (scratch copy only): accessor for the raw lock, as Mutex::raw ----\n"
    "#[cfg(any(kani, verif_mir, verif_replay))]\n"
    "impl<T: ?Sized, R> RwLock<T, R> {\n"
    "\tpub const unsafe fn raw(&self) -> &R {\n\t\t&self.raw\n\t}\n}\n"
)

POISONABLE_APPEND = (
    "\n// ---- appended by /verif (scratch copy only): lets the harness play 'another thread panicked while holding' ----\n"
    "#[cfg(any(kani, verif_mir, verif_replay))]\n"
    "impl<L> Poisonable<L> {\n"
    "\tpub fn verif_poison(&self) {\n\t\tself.poisoned.poison()\n\t}\n"
    "\tpub fn verif_inner(&self) -> &L {\n\t\t&self.inner\n\t}\n}\n"
)

_scratch_dirs = []


def _cleanup():
    for d in _scratch_dirs:
        shutil.rmtree(d, ignore_errors=True)


atexit.register(_cleanup)


def env_offline(extra=None):
    e = dict(os.environ)
    e["CARGO_NET_OFFLINE"] = "true"
    e.pop("RUSTC_WRAPPER", None)
    if extra:
        e.update(extra)
    return e


def repo_hash():
    """content hash of everything of /repo that is compiled"""
    h = hashlib.sha256()
    paths = []
    for root, _dirs, files in os.walk(os.path.join(REPO, "src")):
        for f in files:
            paths.append(os.path.join(root, f))
    paths += [os.path.join(REPO, "Cargo.toml"), os.path.join(REPO, "Cargo.lock")]
    for p in sorted(paths):
        h.update(p.encode())
        with open(p, "rb") as fh:
            h.update(fh.read())
    return h.hexdigest()[:16]


def make_scratch(tag, harness_files, keep=False):
    """Copy /repo/{src,Cargo.toml,Cargo.lock} to a fresh directory outside /repo and /verif,
    append the harness module.  harness_files: {relative name under src/verif_harness: text}"""
    d = os.path.join(SCRATCH_ROOT, "happylock-verif.%s.%d.%d" % (tag, os.getpid(), int(time.time() * 1000) % 100000))
    if os.path.exists(d):
        shutil.rmtree(d)
    os.makedirs(d)
    if not keep:
        _scratch_dirs.append(d)
    shutil.copytree(os.path.join(REPO, "src"), os.path.join(d, "src"))
    for f in ("Cargo.toml", "Cargo.lock"):
        shutil.copy(os.path.join(REPO, f), os.path.join(d, f))
    with open(os.path.join(d, "Cargo.toml"), "a") as fh:
        fh.write("\n[workspace]\n")
    with open(os.path.join(d, "src", "lib.rs"), "a") as fh:
        fh.write(LIB_APPEND)
    with open(os.path.join(d, "src", "rwlock", "rwlock.rs"), "a") as fh:
        fh.write(RWLOCK_APPEND)
    with open(os.path.join(d, "src", "poisonable", "poisonable.rs"), "a") as fh:
        fh.write(POISONABLE_APPEND)
    hd = os.path.join(d, "src", "verif_harness")
    os.makedirs(hd)
    shutil.copy(os.path.join(HARNESS_DIR, "env.rs"), os.path.join(hd, "env.rs"))
    mods = ["pub mod env;"]
    arms = []
    for name, text in harness_files.items():
        with open(os.path.join(hd, name), "w") as fh:
            fh.write(text)
        mod = name[:-3]
        mods.append("pub mod %s;" % mod)
        for fn in entry_names(text):
            arms.append('\t\t"%s::%s" => Some(%s::%s),' % (mod, fn, mod, fn))
    finder = ("#[cfg(verif_replay)]\npub fn find_entry(name: &str) -> Option<fn()> {\n\tmatch name {\n"
              + "\n".join(arms) + "\n\t\t_ => None,\n\t}\n}\n")
    with open(os.path.join(hd, "mod.rs"), "w") as fh:
        fh.write("#![allow(dead_code, unused_variables, unused_imports, unused_mut, unused_must_use, unreachable_code, clippy::all, clippy::pedantic, clippy::nursery)]\n" + "\n".join(mods) + "\n" + finder)
    os.makedirs(os.path.join(d, "src", "bin"), exist_ok=True)
    shutil.copy(os.path.join(HARNESS_DIR, "replay_main.rs"), os.path.join(d, "src", "bin", "verif_replay.rs"))
    os.makedirs(os.path.join(d, ".cargo"), exist_ok=True)
    with open(os.path.join(d, ".cargo", "config.toml"), "w") as fh:
        fh.write("[net]\noffline = true\n")
    return d


def entry_names(text):
    """zero-argument `pub fn name()` items of a harness file are its entry points"""
    return re.findall(r"^pub fn ([a-z0-9_]+)\(\) \{", text, flags=re.M)


def remove_scratch(d):
    shutil.rmtree(d, ignore_errors=True)
    if d in _scratch_dirs:
        _scratch_dirs.remove(d)


def parse_codes():
    """monitor/event/tag constants from harness/env.rs"""
    codes = {}
    with open(os.path.join(HARNESS_DIR, "env.rs")) as fh:
        for line in fh:
            m = re.match(r"pub const ([A-Z_0-9]+): u(?:8|32) = ([^;]+);", line.strip())
            if m:
                try:
                    codes[m.group(1)] = eval(m.group(2).replace("u32::MAX", "0xffffffff"))
                except Exception:
                    pass
    return codes


def load_known_findings():
    p = os.path.join(VERIF, "known_findings.json")
    if not os.path.exists(p):
        return []
    with open(p) as fh:
        return json.load(fh).get("findings", [])


def write_evidence(pid, tier, seed, coverage, assumptions, wall_s, violations, level="model_checking", extra=None):
    os.makedirs(EVIDENCE_DIR, exist_ok=True)
    ev = {
        "property_id": pid,
        "tier": tier,
        "seed": int(seed),
        "level": level,
        "coverage": coverage,
        "assumptions": assumptions,
        "wall_s": round(wall_s, 2),
        "violations": int(violations),
    }
    if extra:
        ev.update(extra)
    tmp = os.path.join(EVIDENCE_DIR, pid + ".json.tmp")
    with open(tmp, "w") as fh:
        json.dump(ev, fh, indent=1, sort_keys=False)
    os.replace(tmp, os.path.join(EVIDENCE_DIR, pid + ".json"))
    return ev


def ncpu():
    try:
        return len(os.sched_getaffinity(0))
    except Exception:
        return os.cpu_count() or 4


def log(*a):
    print(*a, file=sys.stderr, flush=True)
