"""Property harness templates: Rust entry points generated per shape x API flavour."""
from .gen import (HEADER, Shape, all_shapes, apis_for, fn_wrap, held_masks, indent, is_pois, oracle_try, pre_stmts,
                  try_match, unlock_fn, unwrap_pois)


def end_checks(key_back=True):
    out = [
        "vcheck!(!w().held_any(), M_HELD_AFTER_ERR);",
        "vcheck!(w().bad_release.get() == 0, M_BAD_RELEASE);",
        "vcheck!(w().held_at_api_begin.get() == 0, M_HELD_AT_API_BEGIN);",
    ]
    if key_back:
        out.append("vcheck!(key_is_back(), M_KEY_MODEL);")
    return out


def acq_entry(shape, api, mode, blocking, style, env, keystyle="owned", release="drop", user_panic=False, name=None, budget=3):
    """one acquisition + release of `shape` through `api`.
    env: 'q' quiescent with symbolic pre-state, 'a' adversarial.  Monitors of C03/C04/C05/C13/C09(a)."""
    xm, sm = held_masks(shape, mode)
    L = []
    L.append("w().reset(%s);" % ("true" if env == "a" else "false"))
    if env == "a":
        L.append("w().interference_left.set(%d);" % budget)
    L += shape.setup
    if env == "q":
        L += pre_stmts(shape)
    L += shape.build
    if shape.nested_owned_mask != "0":
        L.append("w().wait_ok_mask.set(%s);" % shape.nested_owned_mask)
    if shape.kind == "retry" or shape.name.startswith("n_rt"):
        L.append("w().check_hold_wait.set(true);")
    if is_pois(shape):
        # poison is sticky: the wrapper may have been poisoned by an earlier panic
        L.append("if %s && any_bool(T_MISC | 5) {" % oracle_try(shape, "w"))
        L.append("\tw().adversarial.set(false);")
        L.append("\tlet r0 = catch_unwind(AssertUnwindSafe(|| { let g = match coll.lock(key()) { Ok(g) => g, Err(e) => e.into_inner() }; eng::inject_panic(); drop(g); }));")
        L.append("\tcore::mem::forget(r0);")
        L.append("\tvcheck!(coll.is_poisoned() && !w().held_any(), M_POISON_MODEL);")
        L.append("\tw().adversarial.set(%s);" % ("true" if env == "a" else "false"))
        L.append("}")
    L.append("let snap0 = w().snapshot();")
    L.append("let b0 = w().blocking_ops.get();")
    L.append("let orc = %s;" % oracle_try(shape, mode))
    held_ok = "w().held_x.get() == %s && w().held_s.get() == %s" % (xm, sm)
    if style == "guard":
        L.append("let k = key();")
        L.append("w().api_begin();")
        if blocking:
            L.append("let g = %s;" % unwrap_pois(shape, "coll.%s(k)" % api))
            L.append("vreach!(1);")
            L.append("vcheck!(%s, M_NOT_ALL_HELD);" % held_ok)
            L.append("vcheck!(ThreadKey::get().is_none(), M_KEY_MODEL);")
            if release == "drop":
                L.append("drop(g);")
            else:
                L.append("let kb = %s(g);" % unlock_fn(shape, mode))
                L.append("vcheck!(!w().held_any(), M_HELD_AT_KEY_BACK);")
                L.append("drop(kb);")
        else:
            hdr, okp, poisp, errp = try_match(shape, api)
            L.append(hdr)
            body_ok = ["vreach!(1);"]
            if env == "q":
                body_ok.append("vcheck!(orc, M_TRY_VERDICT);")
            body_ok.append("vcheck!(%s, M_NOT_ALL_HELD);" % held_ok)
            body_ok.append("vcheck!(ThreadKey::get().is_none(), M_KEY_MODEL);")
            if release == "drop":
                body_ok.append("drop(g);")
            else:
                body_ok += ["let kb = %s(g);" % unlock_fn(shape, mode), "vcheck!(!w().held_any(), M_HELD_AT_KEY_BACK);", "drop(kb);"]
            L.append("\t%s {" % okp)
            L += ["\t\t" + x for x in body_ok]
            L.append("\t}")
            if poisp:
                L.append("\t" + poisp)
                L += ["\t\t" + x for x in body_ok]
                L.append("\t}")
            L.append("\t%s {" % errp)
            L.append("\t\tvreach!(2);")
            if env == "q":
                L.append("\t\tvcheck!(!orc, M_TRY_VERDICT);")
            L.append("\t\tvcheck!(!w().held_any(), M_HELD_AFTER_ERR);")
            L.append("\t\tvcheck!(!w().held_any(), M_HELD_AT_KEY_BACK);")
            L.append("\t\tdrop(kb);")
            L.append("\t}")
            L.append("}")
    else:
        if keystyle == "owned":
            L.append("let k = key();")
            karg = "k"
        else:
            L.append("let mut k = key();")
            karg = "&mut k"
        L.append("w().api_begin();")
        clos = ("|_d| { w().closure_runs.set(w().closure_runs.get() + 1); "
                "vcheck!(%s, M_NOT_HELD_IN_SECTION); vcheck!(ThreadKey::get().is_none(), M_KEY_MODEL); 7u8 }" % held_ok)
        if blocking:
            L.append("let r = coll.%s(%s, %s);" % (api, karg, clos))
            L.append("vreach!(1);")
            L.append("vcheck!(r == 7 && w().closure_runs.get() == 1, M_CLOSURE_COUNT);")
            L.append("vcheck!(!w().held_any(), M_HELD_AT_KEY_BACK);")
        else:
            L.append("match coll.%s(%s, %s) {" % (api, karg, clos))
            L.append("\tOk(r) => {")
            L.append("\t\tvreach!(1);")
            if env == "q":
                L.append("\t\tvcheck!(orc, M_TRY_VERDICT);")
            L.append("\t\tvcheck!(r == 7 && w().closure_runs.get() == 1, M_CLOSURE_COUNT);")
            L.append("\t}")
            L.append("\tErr(_kb) => {")
            L.append("\t\tvreach!(2);")
            if env == "q":
                L.append("\t\tvcheck!(!orc, M_TRY_VERDICT);")
            L.append("\t\tvcheck!(w().closure_runs.get() == 0, M_CLOSURE_COUNT);")
            L.append("\t}")
            L.append("}")
            L.append("vcheck!(!w().held_any(), M_HELD_AT_KEY_BACK);")
        if keystyle == "lent":
            # the lent key must still be usable: nothing else may hold the thread's key
            L.append("vcheck!(ThreadKey::get().is_none(), M_KEY_MODEL);")
            L.append("drop(k);")
    if not blocking:
        L.append("vcheck!(w().blocking_ops.get() == b0 && w().wait_events.get() == 0, M_BLOCKING_IN_TRY);")
        if env == "q":
            L.append("vcheck!(w().snapshot() == snap0, M_STATE_CHANGED);")
    if shape.kind == "retry" or shape.name.startswith("n_rt"):
        L.append("vcheck!(w().hold_and_wait.get() == 0, M_HOLD_AND_WAIT);")
    L += end_checks()
    L.append("vreach!(3);")
    nm = name or "%s__%s__%s%s%s" % (shape.name, api, env, "_lent" if keystyle == "lent" else "", "_unlock" if release == "unlock" else "")
    return nm, fn_wrap(nm, L)


def gen_acq(tier, envs=("q", "a"), shapes=None, only_try=False, only_blocking=False, kinds=None, budget=None):
    """-> (text, [entry names])"""
    out = [HEADER]
    names = []
    if budget is None:
        budget = 2 if tier == "quick" else 3
    for sh in (shapes or all_shapes(tier)):
        if kinds is not None and not kinds(sh):
            continue
        for (api, mode, blocking, style) in apis_for(sh):
            if only_try and blocking:
                continue
            if only_blocking and not blocking:
                continue
            for env in envs:
                variants = [("owned", "drop")]
                if style == "guard":
                    variants.append(("owned", "unlock"))
                else:
                    variants.append(("lent", "drop"))
                for keystyle, release in variants:
                    nm, txt = acq_entry(sh, api, mode, blocking, style, env, keystyle, release, budget=(budget(sh) if callable(budget) else budget))
                    names.append(nm)
                    out.append(txt)
    return "\n".join(out), names


# ------------------------------------------------------------------------------------------
# panics: user code (C11), raw lock faults (C12)
# ------------------------------------------------------------------------------------------
def leaf_match(shape, var, what):
    """rust: match var { 0 => id0, 1 => id1, ... }"""
    arms = ["%d => %s," % (j, i) for j, i in enumerate(shape.ids())]
    arms[-1] = "_ => %s," % shape.ids()[-1]
    return "match %s { %s }" % (var, " ".join(arms))


def panic_entry(shape, api, mode, blocking, style, kind, keystyle="owned"):
    xm, sm = held_masks(shape, mode)
    held_ok = "w().held_x.get() == %s && w().held_s.get() == %s" % (xm, sm)
    L = ["w().reset(false);"]
    L += shape.setup
    L += pre_stmts(shape)
    if kind == "fault" and shape.kind in ("owned", "retry") and shape.build[-1].startswith("let coll = ") and "::new(" in shape.build[-1] \
            and not shape.name.startswith(("n_", "rte", "owe")):
        shape = Shape(shape.name, shape.kind, shape.setup, shape.build[:-1] + [shape.build[-1].replace("let coll", "let mut coll", 1)],
                      shape.ctype, shape.leaves, shape.sharable, guard=shape.guard, rguard=shape.rguard, nested_owned_mask=shape.nested_owned_mask)
    L += shape.build
    L.append("let orc = %s;" % oracle_try(shape, mode))
    L.append("let all_free = %s;" % oracle_try(shape, "w"))
    if kind == "user" and is_pois(shape):
        # the wrapper may already be poisoned by an earlier panic (poison is sticky)
        L.append("if any_bool(T_MISC | 5) && all_free {")
        L.append("\tlet r0 = catch_unwind(AssertUnwindSafe(|| { let g = match coll.lock(key()) { Ok(g) => g, Err(e) => e.into_inner() }; eng::inject_panic(); drop(g); }));")
        L.append("\tcore::mem::forget(r0);")
        L.append("\tvcheck!(coll.is_poisoned() && !w().held_any(), M_POISON_MODEL);")
        L.append("}")
    if kind == "fault":
        L.append("w().fault_armed.set(true);")
    elif kind == "user":
        L.append("w().user_panic_armed.set(true);")
    elif kind == "evil":
        # exactly the persistent fault classes of tests/evil_*.rs, at symbolic positions:
        #   0: lock and unlock panic (evil_mutex / evil_rwlock)   1: try panics (evil_try_*)
        #   2: every operation panics, plus a second lock whose release panics (evil_unlock_*)
        n = shape.n()
        L.append("let ej = any_below(T_EVIL, %d);" % n)
        L.append("let ec = any_below(T_EVIL | 1, %d);" % (3 if n > 1 else 2))
        L.append("let evil_id: u8 = %s;" % leaf_match(shape, "ej", "id"))
        L.append("w().evil_lock[0].set(evil_id);")
        L.append("w().evil_class[0].set(match ec { 0 => EVIL_LOCK | EVIL_UNLOCK, 1 => EVIL_TRY, _ => 7 });")
        if n > 1:
            L.append("if ec == 2 {")
            L.append("\tlet ej2 = any_below(T_EVIL | 2, %d);" % n)
            L.append("\teng::assume(ej2 != ej);")
            L.append("\tw().evil_lock[1].set(%s);" % leaf_match(shape, "ej2", "id"))
            L.append("\tw().evil_class[1].set(EVIL_UNLOCK);")
            L.append("}")
    if style == "guard" or keystyle == "owned":
        L.append("let k = key();")
        karg = "k"
    else:
        L.append("let mut k = key();")
        karg = "&mut k"
    L.append("w().api_begin();")
    inner = []
    if style == "guard":
        if blocking:
            inner.append("let g = %s;" % unwrap_pois(shape, "coll.%s(k)" % api))
            inner.append("vreach!(11);")
            inner.append("vcheck!(%s, M_NOT_ALL_HELD);" % held_ok)
            inner.append("user_point(1);")
            inner.append("vreach!(12);")
            inner.append("drop(g);")
        else:
            hdr, okp, poisp, errp = try_match(shape, api)
            inner.append(hdr)
            body_ok = ["vreach!(11);", "vcheck!(%s, M_NOT_ALL_HELD);" % held_ok, "user_point(1);", "vreach!(12);", "drop(g);"]
            inner.append("\t%s {" % okp)
            inner += ["\t\t" + x for x in body_ok]
            inner.append("\t}")
            if poisp:
                inner.append("\t" + poisp)
                inner += ["\t\t" + x for x in body_ok]
                inner.append("\t}")
            inner.append("\t%s { drop(kb); }" % errp)
            inner.append("}")
    else:
        clos = "|_d| { vreach!(11); vcheck!(%s, M_NOT_HELD_IN_SECTION); user_point(1); vreach!(12); 7u8 }" % held_ok
        inner.append("let _r = coll.%s(%s, %s);" % (api, karg, clos))
    L.append("let r = catch_unwind(AssertUnwindSafe(|| {")
    L += ["\t" + x for x in inner]
    L.append("}));")
    L.append("let panicked = r.is_err();")
    L.append("core::mem::forget(r);")
    L.append("w().fault_armed.set(false);")
    L.append("w().user_panic_armed.set(false);")
    L.append("let fired = w().fault_fired.get();")
    if kind == "evil":
        L.append("w().evil_class[0].set(0);")
        L.append("w().evil_class[1].set(0);")
        L.append("let evil_mask = bit(evil_id) | (if w().evil_lock[1].get() != NOID { bit(w().evil_lock[1].get()) } else { 0 });")
    if style == "scoped" and keystyle == "lent":
        L.append("vcheck!(ThreadKey::get().is_none(), M_KEY_MODEL);")
        L.append("drop(k);")
    L.append("vcheck!(key_is_back(), M_KEY_MODEL);")
    if kind == "user":
        L.append("vcheck!(w().bad_release.get() == 0, M_BAD_RELEASE);")
        L.append("vcheck!(!w().held_any(), M_LEAK);")
        L.append("if panicked {")
        L.append("\tvreach!(4);")
        # the locks must be usable again by anyone: re-acquire through the same object
        if blocking or True:
            if shape.kind in ("single_m", "single_r"):
                reacq = "coll.%s(key()).is_ok()" % ("try_lock" if shape.kind == "single_m" else "try_write")
            elif is_pois(shape):
                reacq = "match coll.try_lock(key()) { Err(crate::poisonable::TryLockPoisonableError::WouldBlock(_)) => false, _ => true }"
            else:
                reacq = "coll.try_lock(key()).is_ok()"
            L.append("\tif all_free { vcheck!(%s, M_LEAK); }" % reacq)
            L.append("\tvcheck!(!w().held_any(), M_LEAK);")
        L.append("}")
    elif kind == "fault":
        L.append("vcheck!(panicked == fired, M_NO_PANIC);")
        L.append("vcheck!(w().bad_release.get() == 0, M_BAD_RELEASE);")
        L.append("if fired {")
        L.append("\tvreach!(4);")
        L.append("\tlet fl = w().faulted_lock.get();")
        L.append("\tvcheck!((w().held_x.get() | w().held_s.get()) & !bit(fl) == 0, M_LEAK);")
        # the faulted lock refuses later acquisitions
        for (i, k, ref) in shape.leaves:
            if ref.startswith("&") or ref == "raw6":
                continue
            tryapi = "try_lock" if k == "M" else "try_write"
            lockapi = "lock" if k == "M" else "write"
            L.append("\tif %s == fl {" % i)
            L.append("\t\tvcheck!(%s.%s(key()).is_err(), M_FAULTED_USABLE);" % (ref, tryapi))
            L.append("\t\tif w().tab[fl as usize].get() == 0 {")
            L.append("\t\t\tlet r2 = catch_unwind(AssertUnwindSafe(|| { let g = %s.%s(key()); drop(g); }));" % (ref, lockapi))
            L.append("\t\t\tvcheck!(r2.is_err(), M_FAULTED_USABLE);")
            L.append("\t\t\tcore::mem::forget(r2);")
            L.append("\t\t}")
            L.append("\t}")
        if shape.kind in ("owned", "retry") and shape.build[-1].startswith("let mut coll = ") and "::new(" in shape.build[-1]:
            # exclusive access to the collection must not bring a killed lock back to life
            L.append("\tif (w().held_x.get() | w().held_s.get()) == 0 {")
            L.append("\t\t{ let _gm = coll.get_mut(); }")
            L.append("\t\tvcheck!(coll.try_lock(key()).is_err(), M_FAULTED_USABLE);")
            L.append("\t\tvcheck!(!w().held_any(), M_LEAK);")
            L.append("\t}")
        L.append("} else {")
        L.append("\tvcheck!(!w().held_any(), M_HELD_AFTER_ERR);")
        L.append("}")
    else:
        L.append("vcheck!(panicked == fired, M_NO_PANIC);")
        L.append("vcheck!(w().bad_release.get() == 0, M_BAD_RELEASE);")
        L += leaked_member_probe(shape)
        L.append("vcheck!((w().held_x.get() | w().held_s.get()) & !evil_mask == 0, M_LEAK);")
        L.append("if fired { vreach!(4); }")
    L.append("vreach!(3);")
    nm = "%s__%s__%s%s" % (shape.name, api, kind, "_lent" if (style == "scoped" and keystyle == "lent") else "")
    return nm, fn_wrap(nm, L)


# members of a nested OwnedLockCollection are reachable only by taking the collection apart
OWNED_MEMBER_PROBES = {
    "n_bx_ow": (["drop(coll);", "let (c0, c1) = inner.into_child();"], [("6", "c0", "lock"), ("7", "c1", "write")]),
    "n_rt_ow": (["drop(coll);", "let (c0, c1) = inner.into_child();"], [("6", "c0", "write"), ("7", "c1", "write")]),
    "n_ow_ow": (["let (ci, c2) = coll.into_child();", "let (c0, c1) = ci.into_child();"],
                [("6", "c0", "lock"), ("7", "c1", "lock"), ("8", "c2", "write")]),
}


def leaked_member_probe(shape):
    """evil harness, after the call: a member that is still held although its own operations never panicked is a leak
    in any case (M_LEAK, below); on top of that it must at least be unusable - a blocking acquisition of it has to
    panic ("killed"), it must not wait for a release that will never come (the audit lock reports M_SELF_WAIT).
    The members of a nested owned collection can only be addressed after into_child()."""
    if shape.name not in OWNED_MEMBER_PROBES:
        return []
    pre, members = OWNED_MEMBER_PROBES[shape.name]
    L = ["if fired && (w().held_x.get() | w().held_s.get()) & !evil_mask != 0 {"]
    L += ["\t" + x for x in pre]
    for (i, var, api) in members:
        L.append("\tif (w().held_x.get() | w().held_s.get()) & bit(%s) & !evil_mask != 0 {" % i)
        L.append("\t\tlet r2 = catch_unwind(AssertUnwindSafe(|| { let g = %s.%s(key()); drop(g); }));" % (var, api))
        L.append("\t\tvcheck!(r2.is_err(), M_FAULTED_USABLE);")
        L.append("\t\tcore::mem::forget(r2);")
        L.append("\t}")
    L.append("}")
    return L


def indrop_entry(shape, api, mode, blocking):
    """the scoped call runs inside a destructor while the thread is already unwinding; its closure may panic and the
    destructor catches that panic"""
    xm, sm = held_masks(shape, mode)
    held_ok = "w().held_x.get() == %s && w().held_s.get() == %s" % (xm, sm)
    L = ["w().reset(false);"] + shape.setup + pre_stmts(shape) + shape.build
    L.append("let all_free = %s;" % oracle_try(shape, "w"))
    L.append("w().user_panic_armed.set(true);")
    clos = "|_d| { vreach!(11); vcheck!(%s, M_NOT_HELD_IN_SECTION); user_point(1); vreach!(12); 7u8 }" % held_ok
    L.append("let r = catch_unwind(AssertUnwindSafe(|| {")
    L.append("\tlet _d = OnDrop(|| {")
    L.append("\t\tlet r2 = catch_unwind(AssertUnwindSafe(|| { let _ = coll.%s(key(), %s); }));" % (api, clos))
    L.append("\t\tcore::mem::forget(r2);")
    L.append("\t});")
    L.append("\teng::inject_panic();")
    L.append("}));")
    L.append("vcheck!(r.is_err(), M_NO_PANIC);")
    L.append("core::mem::forget(r);")
    L.append("w().user_panic_armed.set(false);")
    L.append("vcheck!(w().bad_release.get() == 0, M_BAD_RELEASE);")
    L.append("vcheck!(!w().held_any(), M_LEAK);")
    L.append("vcheck!(key_is_back(), M_KEY_MODEL);")
    L.append("vreach!(4);")
    L.append("vreach!(3);")
    nm = "%s__%s__user_indrop" % (shape.name, api)
    return nm, fn_wrap(nm, L)


def gen_panic(tier, kind, kinds=None, fixed_seed=None):
    from . import gen
    out = [HEADER]
    names = []
    gen.FIXED_PICKS[0] = fixed_seed
    try:
        shapes = all_shapes(tier)
    finally:
        gen.FIXED_PICKS[0] = None
    for sh in shapes:
        if kinds is not None and not kinds(sh):
            continue
        if sh.n() == 0 and kind != "user":
            continue
        if sh.n() >= 5 and kind != "user":
            continue  # fault positions x pre-states explode for the large-arity shapes; they are covered fault-free

        for (api, mode, blocking, style) in apis_for(sh):
            ks = ["owned"] + (["lent"] if style == "scoped" else [])
            for keystyle in ks:
                nm, txt = panic_entry(sh, api, mode, blocking, style, kind, keystyle)
                names.append(nm)
                out.append(txt)
            if kind == "user" and style == "scoped":
                nm, txt = indrop_entry(sh, api, mode, blocking)
                names.append(nm)
                out.append(txt)
    return "\n".join(out), names


# ------------------------------------------------------------------------------------------
# C10: poisoning model
# ------------------------------------------------------------------------------------------
POIS_SHAPES = {
    # name: (setup lines, has containing collection, leaf kind, collection sharable)
    "pm": (["let po: PM = Poisonable::new(new_m(6));"], None, "M"),
    "pr": (["let po: PR = Poisonable::new(new_r(6));"], None, "R"),
    "bx_pm": (["let u = universe();", "let po: PM = Poisonable::new(new_m(6));",
               "let coll = BoxedLockCollection::try_new((&po, &u.m0)).unwrap();"], "boxed", "M"),
    "bx_pr": (["let u = universe();", "let po: PR = Poisonable::new(new_r(6));",
               "let coll = BoxedLockCollection::try_new((&u.r1, &po)).unwrap();"], "boxed", "R"),
    "rt_pm": (["let u = universe();", "let po: PM = Poisonable::new(new_m(6));",
               "let coll = RetryingLockCollection::try_new((&u.m1, &po)).unwrap();"], "retry", "M"),
    "rf_pr": (["let u = universe();", "let po: PR = Poisonable::new(new_r(6));", "let tup = (&po, &u.r0);",
               "let coll = RefLockCollection::try_new(&tup).unwrap();"], "ref", "R"),
    "ow_pm": (["let po: PM = Poisonable::new(new_m(6));", "let tup = (po, new_m(7));",
               "let coll = RefLockCollection::new(&tup);", "let po = &tup.0;"], "ref-owned", "M"),
}


def pois_routes(name):
    setup, coll, k = POIS_SHAPES[name]
    excl = "write" if False else None
    R = []  # (route name, exclusive?, rust lines using site number S)
    unwrap = "match %s { Ok(g) => g, Err(e) => e.into_inner() }"
    R.append(("own_lock", True, ["let g = " + unwrap % "po.lock(key())" + ";", "user_point(S);", "drop(g);"]))
    R.append(("own_try_lock", True, [
        "match po.try_lock(key()) {", "\tOk(g) => { user_point(S); drop(g); }",
        "\tErr(crate::poisonable::TryLockPoisonableError::Poisoned(e)) => { let g = e.into_inner(); user_point(S); drop(g); }",
        "\tErr(crate::poisonable::TryLockPoisonableError::WouldBlock(kb)) => { drop(kb); }", "}"]))
    R.append(("own_scoped_lock", True, ["po.scoped_lock(key(), |_d| { user_point(S); });"]))
    R.append(("own_scoped_try_lock", True, ["let _ = po.scoped_try_lock(key(), |_d| { user_point(S); });"]))
    if k == "R":
        R.append(("own_read", False, ["let g = " + unwrap % "po.read(key())" + ";", "user_point(S);", "drop(g);"]))
        R.append(("own_scoped_read", False, ["po.scoped_read(key(), |_d| { user_point(S); });"]))
    # clear_poison while a (possibly Err) guard is live, then a panic inside that same hold
    R.append(("own_lock_clear_inside", True, ["let g = " + unwrap % "po.lock(key())" + ";", "po.clear_poison();", "user_point(S);", "drop(g);"]))
    if coll is None:
        # another thread holds the lock and panics (poisoning it) while this thread is already waiting in lock()/read()
        R.append(("own_lock_env_poisons", True, ["ENVPOISON lock"]))
        if k == "R":
            R.append(("own_read_env_poisons", True, ["ENVPOISON read"]))
    if coll:
        R.append(("coll_lock_clear_inside", True, ["let g = coll.lock(key());", "po.clear_poison();", "user_point(S);", "drop(g);"]))
        R.append(("coll_lock", True, ["let g = coll.lock(key());", "user_point(S);", "drop(g);"]))
        R.append(("coll_try_lock", True, ["match coll.try_lock(key()) { Ok(g) => { user_point(S); drop(g); } Err(kb) => { drop(kb); } }"]))
        R.append(("coll_scoped_lock", True, ["coll.scoped_lock(key(), |_d| { user_point(S); });"]))
        R.append(("coll_scoped_try_lock", True, ["let _ = coll.scoped_try_lock(key(), |_d| { user_point(S); });"]))
        if k == "R":
            R.append(("coll_read", False, ["let g = coll.read(key());", "user_point(S);", "drop(g);"]))
            R.append(("coll_scoped_read", False, ["coll.scoped_read(key(), |_d| { user_point(S); });"]))
    return R


ROUTE_IDS = {"own_lock_clear_inside": 12, "coll_lock_clear_inside": 13, "own_lock_env_poisons": 14, "own_read_env_poisons": 15, "own_lock": 0, "own_try_lock": 1, "own_scoped_lock": 2, "own_scoped_try_lock": 3, "own_read": 4, "own_scoped_read": 5,
             "coll_lock": 6, "coll_try_lock": 7, "coll_scoped_lock": 8, "coll_scoped_try_lock": 9, "coll_read": 10,
             "coll_scoped_read": 11}


POIS_KIND = ["PM"]
POIS_PROBE = """
fn env_poison_pm(p: usize) {
	unsafe { &*(p as *const PM) }.verif_poison()
}
fn env_poison_pr(p: usize) {
	unsafe { &*(p as *const PR) }.verif_poison()
}
/// the environment (another thread) holds the wrapped lock exclusively
trait EnvHold {
	unsafe fn env_hold(&self);
}
impl EnvHold for PM {
	unsafe fn env_hold(&self) {
		let m = self.verif_inner();
		raw_m(m).st.set(ST_ENV);
		raw_m(m).sync();
	}
}
impl EnvHold for PR {
	unsafe fn env_hold(&self) {
		let r = self.verif_inner();
		raw_r(r).x.set(ST_ENV);
		raw_r(r).sync();
	}
}
unsafe fn po_raw_env_hold<P: EnvHold>(p: &P) {
	p.env_hold()
}
fn probe_pm(p: usize) -> bool {
	unsafe { &*(p as *const PM) }.is_poisoned()
}
fn probe_pr(p: usize) -> bool {
	unsafe { &*(p as *const PR) }.is_poisoned()
}
"""


def pois_step(routes, idx, site):
    """rust for executing route #idx (python int) wrapped in catch_unwind, updating the model"""
    nm, excl, lines = routes[idx]
    L = ["eng::event(E_MARK, %d, 0);" % (9100 + ROUTE_IDS[nm]), "w().probe_last.set(2);"]
    if lines and lines[0].startswith("ENVPOISON"):
        api = lines[0].split()[1]
        kind = "r" if "PR" in POIS_KIND[0] else "m"
        L.append("if %s {" % ("raw_r(&o_probe()).x.get() == 0" if False else "true"))
        L.append("\tw().wait_hook.set(Some(env_poison_p%s)); w().wait_hook_arg.set(&po as *const P%s as usize); w().wait_hook_lock.set(6);" % (kind, kind.upper()))
        L.append("\tunsafe { po_raw_env_hold(&po) };")
        L.append("\tmatch po.%s(key()) {" % api)
        L.append("\t\tOk(g) => { vcheck!(false, M_POISON_MODEL); drop(g); }")
        L.append("\t\tErr(e) => { let g = e.into_inner(); vcheck!(w().held_any(), M_NOT_ALL_HELD); drop(g); }")
        L.append("\t}")
        L.append("\tmust = true; may = true;")
        L.append("}")
        L.append("vcheck!(!w().held_any(), M_LEAK);")
        L.append("let p = po.is_poisoned();")
        L.append("vcheck!(!must || p, M_POISON_MODEL);")
        return L
    if nm.endswith("_clear_inside"):
        L.append("must = false; may = false;")
    L.append("let r = catch_unwind(AssertUnwindSafe(|| {")
    L += ["\t" + l.replace("S", str(site)) if "user_point(S)" in l else "\t" + l for l in lines]
    L.append("}));")
    L.append("let panicked = r.is_err();")
    L.append("core::mem::forget(r);")
    if excl:
        L.append("if panicked { must = true; may = true; }")
        # another thread acquiring right after the release must already see the poison: the flag has to be
        # set before the raw lock is released
        L.append("if panicked { vcheck!(w().probe_last.get() == 1, M_POISON_MODEL); }")
    else:
        L.append("if panicked { may = true; }")
    L.append("vcheck!(!w().held_any(), M_LEAK);")
    L.append("let p = po.is_poisoned();")
    L.append("vcheck!(!must || p, M_POISON_MODEL);")
    L.append("vcheck!(may || !p, M_POISON_MODEL);")
    return L


def pois_entry(name, ia):
    setup, coll, k = POIS_SHAPES[name]
    POIS_KIND[0] = "P" + k
    routes = pois_routes(name)
    L = ["w().reset(false);"] + setup
    L.append("w().probe_fn.set(Some(probe_p%s)); w().probe_arg.set(&*po as *const P%s as usize); w().probe_lock.set(6);" % (k.lower(), k) if name == "ow_pm" else
             "w().probe_fn.set(Some(probe_p%s)); w().probe_arg.set(&po as *const P%s as usize); w().probe_lock.set(6);" % (k.lower(), k))
    L.append("let mut must = false;")
    L.append("let mut may = false;")
    L.append("w().user_panic_armed.set(true);")
    L += pois_step(routes, ia, 1)
    L.append("if any_bool(T_MISC | 1) { po.clear_poison(); must = false; may = false; vcheck!(!po.is_poisoned(), M_POISON_MODEL); }")
    L.append("let ib = any_below(T_OPCODE | 1, %d);" % len(routes))
    L.append("match ib {")
    for j in range(len(routes)):
        pat = "_" if j == len(routes) - 1 else str(j)
        L.append("\t%s => {" % pat)
        L += ["\t\t" + x for x in pois_step(routes, j, 2)]
        L.append("\t}")
    L.append("}")
    L.append("w().user_panic_armed.set(false);")
    L.append("if any_bool(T_MISC | 2) { po.clear_poison(); must = false; may = false; }")
    # subsequent acquisitions by the same thread: verdicts follow the model, errors carry a working guard
    L.append("eng::event(E_MARK, 9199, 0);")
    L.append("match po.lock(key()) {")
    L.append("\tOk(g) => { vcheck!(!must, M_POISON_MODEL); vcheck!(w().held_any(), M_NOT_ALL_HELD); drop(g); }")
    L.append("\tErr(e) => { vcheck!(may, M_POISON_MODEL); let mut g = e.into_inner(); vcheck!(w().held_any(), M_NOT_ALL_HELD); *g = 9; drop(g); }")
    L.append("}")
    L.append("vcheck!(!w().held_any(), M_LEAK);")
    L.append("match po.try_lock(key()) {")
    L.append("\tOk(g) => { vcheck!(!must, M_POISON_MODEL); drop(g); }")
    L.append("\tErr(crate::poisonable::TryLockPoisonableError::Poisoned(e)) => { vcheck!(may, M_POISON_MODEL); drop(e.into_inner()); }")
    L.append("\tErr(crate::poisonable::TryLockPoisonableError::WouldBlock(kb)) => { vcheck!(false, M_TRY_VERDICT); drop(kb); }")
    L.append("}")
    L.append("let se = po.scoped_lock(key(), |d| d.is_err());")
    L.append("vcheck!((!must || se) && (may || !se), M_POISON_MODEL);")
    if k == "R":
        L.append("match po.read(key()) { Ok(g) => { vcheck!(!must, M_POISON_MODEL); drop(g); } Err(e) => { vcheck!(may, M_POISON_MODEL); drop(e.into_inner()); } }")
        L.append("let sr = po.scoped_read(key(), |d| d.is_err());")
        L.append("vcheck!((!must || sr) && (may || !sr), M_POISON_MODEL);")
    if coll:
        pos = {"bx_pm": 0, "bx_pr": 1, "rt_pm": 1, "rf_pr": 0, "ow_pm": 0}[name]
        L.append("let g = coll.lock(key());")
        L.append("let ge = g.%d.is_err();" % pos)
        L.append("vcheck!((!must || ge) && (may || !ge), M_POISON_MODEL);")
        L.append("drop(g);")
        L.append("let ce = coll.scoped_lock(key(), |d| d.%d.is_err());" % pos)
        L.append("vcheck!((!must || ce) && (may || !ce), M_POISON_MODEL);")
    L.append("vcheck!(!w().held_any(), M_LEAK);")
    L.append("vcheck!(w().bad_release.get() == 0, M_BAD_RELEASE);")
    L.append("vcheck!(key_is_back(), M_KEY_MODEL);")
    L.append("vreach!(3);")
    nm = "%s__%s" % (name, routes[ia][0])
    return nm, fn_wrap(nm, L)


def gen_poison(tier):
    out = [HEADER, POIS_PROBE]
    names = []
    for name in POIS_SHAPES:
        for ia in range(len(pois_routes(name))):
            nm, txt = pois_entry(name, ia)
            names.append(nm)
            out.append(txt)
    return "\n".join(out), names


# ------------------------------------------------------------------------------------------
# C07: duplicate detection is exact
# ------------------------------------------------------------------------------------------
def free_picks(kinds, prefix="l", tagbase=0):
    """symbolic picks WITHOUT distinctness; returns (stmts, names, dup expression)"""
    st, names = [], []
    per = {"M": [], "R": []}
    dups = []
    for i, k in enumerate(kinds):
        v = "%si%d" % (prefix, i)
        st.append("let %s = any_below(T_IDX | %d, 3);" % (v, tagbase + i))
        for o in per[k]:
            dups.append("%s == %s" % (v, o))
        per[k].append(v)
        nm = "%s%d" % (prefix, i)
        st.append("let %s = pick_%s(&u, %s);" % (nm, k.lower(), v))
        names.append(nm)
    return st, names, ("(" + " || ".join(dups) + ")") if dups else "false"


def ctor(coll, data):
    if coll == "boxed":
        return "BoxedLockCollection::try_new(%s)" % data
    if coll == "retry":
        return "RetryingLockCollection::try_new(%s)" % data
    return "RefLockCollection::try_new(&%s)" % data


def dup_entry(coll, kinds, container="tuple"):
    st, names, dup = free_picks(kinds)
    L = ["w().reset(false);", "let u = universe();"] + st
    L.append("let dup = %s;" % dup)
    if container == "tuple":
        data = "(" + ", ".join(names) + ("," if len(names) == 1 else "") + ")"
    elif container == "array":
        data = "[" + ", ".join(names) + "]"
    else:
        data = "vec![" + ", ".join(names) + "]"
    L.append("let data = %s;" % data)
    mask = " | ".join("bit(id%s(%s))" % (k.lower(), n) for n, k in zip(names, kinds))
    L.append("let r = %s;" % ctor(coll, "data"))
    L.append("vcheck!(r.is_none() == dup, M_DUP_VERDICT);")
    L.append("if let Some(c) = r {")
    L.append("\tvreach!(1);")
    L.append("\tlet g = c.lock(key());")
    L.append("\tvcheck!(w().held_x.get() == (%s), M_NOT_ALL_HELD);" % mask)
    L.append("\tdrop(g);")
    L.append("\tvcheck!(!w().held_any(), M_HELD_AFTER_ERR);")
    L.append("} else { vreach!(2); }")
    L.append("vreach!(3);")
    nm = "dup_%s_%s_%s" % (coll, container[0], kinds.lower())
    return nm, fn_wrap(nm, L)


def dup_nested_entry(outer, inner, kinds_inner, kind_extra):
    """outer((&inner(l0..), x)) : x duplicates iff it equals a same-kind member of inner"""
    st, names, dup_in = free_picks(kinds_inner)
    L = ["w().reset(false);", "let u = universe();"] + st
    L.append("let xi = any_below(T_IDX | 9, 3);")
    L.append("let x = pick_%s(&u, xi);" % kind_extra.lower())
    same = [("xi == li%d" % i) for i, k in enumerate(kinds_inner) if k == kind_extra]
    L.append("let dup_inner = %s;" % dup_in)
    L.append("let dup_outer = %s;" % ("(" + " || ".join(same) + ")" if same else "false"))
    data = "(" + ", ".join(names) + ("," if len(names) == 1 else "") + ")"
    L.append("let idata = %s;" % data)
    L.append("let ri = %s;" % ctor(inner, "idata"))
    L.append("vcheck!(ri.is_none() == dup_inner, M_DUP_VERDICT);")
    L.append("if let Some(ic) = ri {")
    L.append("\tlet odata = (&ic, x);")
    L.append("\tlet ro = %s;" % ctor(outer, "odata"))
    L.append("\tvcheck!(ro.is_none() == dup_outer, M_DUP_VERDICT);")
    mask = " | ".join(["bit(id%s(%s))" % (k.lower(), n) for n, k in zip(names, kinds_inner)] + ["bit(id%s(x))" % kind_extra.lower()])
    L.append("\tif let Some(c) = ro {")
    L.append("\t\tvreach!(1);")
    L.append("\t\tlet g = c.lock(key());")
    L.append("\t\tvcheck!(w().held_x.get() == (%s), M_NOT_ALL_HELD);" % mask)
    L.append("\t\tdrop(g);")
    L.append("\t} else { vreach!(2); }")
    L.append("\t// the same nested collection listed twice is a duplicate too")
    L.append("\tlet twice = (&ic, &ic);")
    L.append("\tlet rt = %s;" % ctor(outer, "twice"))
    L.append("\tvcheck!(rt.is_none(), M_DUP_VERDICT);")
    L.append("}")
    L.append("vcheck!(!w().held_any(), M_HELD_AFTER_ERR);")
    L.append("vreach!(3);")
    nm = "dupn_%s_%s_%s_%s" % (outer, inner, kinds_inner.lower(), kind_extra.lower())
    return nm, fn_wrap(nm, L)


def dup_wrapped_entry(outer):
    """owned collections and poisonable wrappers referenced twice / next to a distinct one"""
    L = ["w().reset(false);", "let u = universe();"]
    L.append("let ow = OwnedLockCollection::new((new_m(6), new_r(7)));")
    L.append("let ow2 = OwnedLockCollection::new((new_m(8),));")
    L.append("let po: PM = Poisonable::new(new_m(9));")
    L.append("let xi = any_below(T_IDX | 0, 3);")
    L.append("let x = pick_m(&u, xi);")
    L.append("let d1 = (&ow, &ow);")
    L.append("vcheck!(%s.is_none(), M_DUP_VERDICT);" % ctor(outer, "d1"))
    L.append("let d2 = (&po, x, &po);")
    L.append("vcheck!(%s.is_none(), M_DUP_VERDICT);" % ctor(outer, "d2"))
    L.append("let d3 = (&ow, x, &ow2, &po);")
    L.append("let r3 = %s;" % ctor(outer, "d3"))
    L.append("vcheck!(r3.is_some(), M_DUP_VERDICT);")
    L.append("if let Some(c) = r3 {")
    L.append("\tvreach!(1);")
    L.append("\tlet g = c.lock(key());")
    L.append("\tvcheck!(w().held_x.get() == (bit(6) | bit(7) | bit(8) | bit(9) | bit(idm(x))), M_NOT_ALL_HELD);")
    L.append("\tdrop(g);")
    L.append("}")
    L.append("vcheck!(!w().held_any(), M_HELD_AFTER_ERR);")
    L.append("vreach!(3);")
    nm = "dupw_%s" % outer
    return nm, fn_wrap(nm, L)


def gen_dup(tier):
    out = [HEADER]
    names = []
    kinds_list = ["MM", "MR", "RR", "MMM", "MRM", "RMR", "MMR"] if tier == "quick" else \
        ["M", "MM", "MR", "RR", "MMM", "MRM", "RMR", "MMR", "RRR", "MRMR", "MMRR", "MMMR", "MMMM", "MRMRM", "MMRRM", "MMRRMR"]
    for coll in ("boxed", "ref", "retry"):
        for kinds in kinds_list:
            nm, txt = dup_entry(coll, kinds)
            names.append(nm)
            out.append(txt)
        if tier != "quick":
            for container in ("array", "vec"):
                for kinds in ("MM", "MMM", "MMMM"):
                    if coll == "ref" and container == "vec":
                        pass
                    nm, txt = dup_entry(coll, kinds, container)
                    names.append(nm)
                    out.append(txt)
        nm, txt = dup_wrapped_entry(coll)
        names.append(nm)
        out.append(txt)
    for outer in ("boxed", "ref", "retry"):
        for inner in ("boxed", "retry", "ref"):
            for (ki, kx) in ((("MM", "M"), ("MR", "R")) if tier == "quick" else (("MM", "M"), ("MR", "R"), ("MR", "M"), ("MRM", "M"), ("RR", "M"))):
                nm, txt = dup_nested_entry(outer, inner, ki, kx)
                names.append(nm)
                out.append(txt)
    return "\n".join(out), names


# ------------------------------------------------------------------------------------------
# C08: one arrangement-independent acquisition order
# ------------------------------------------------------------------------------------------
ORDER_HELPERS = """
/// acquisitions (blocking, or successful try) recorded in the world log from index `from`, as lock ids
fn acq_seq(from: usize, out: &mut [u8; 8]) -> usize {
	let mut n = 0;
	let mut i = from;
	while i < w().log_len.get() {
		let e = w().log[i].get();
		let kind = (e >> 8) as u32;
		if (kind == K_LOCK_X || kind == K_LOCK_S || kind == K_TRY_X || kind == K_TRY_S) && n < 8 {
			out[n] = (e & 0xff) as u8;
			n += 1;
		}
		i += 1;
	}
	n
}
fn pos(seq: &[u8; 8], n: usize, id: u8) -> usize {
	let mut i = 0;
	while i < n {
		if seq[i] == id {
			return i;
		}
		i += 1;
	}
	99
}
/// the two sequences order their common locks identically
fn consistent(a: &[u8; 8], na: usize, b: &[u8; 8], nb: usize) -> bool {
	let mut i = 0;
	while i < na {
		let mut j = i + 1;
		while j < na {
			let pi = pos(b, nb, a[i]);
			let pj = pos(b, nb, a[j]);
			if pi != 99 && pj != 99 && pi >= pj {
				return false;
			}
			j += 1;
		}
		i += 1;
	}
	true
}
/// universe locks (ids 0..5) appear in increasing id (= address) order
fn increasing_universe(a: &[u8; 8], n: usize) -> bool {
	let mut last: i32 = -1;
	let mut i = 0;
	while i < n {
		if a[i] < 6 {
			if (a[i] as i32) <= last {
				return false;
			}
			last = a[i] as i32;
		}
		i += 1;
	}
	true
}
fn same_seq(a: &[u8; 8], na: usize, b: &[u8; 8], nb: usize) -> bool {
	if na != nb {
		return false;
	}
	let mut i = 0;
	while i < na {
		if a[i] != b[i] {
			return false;
		}
		i += 1;
	}
	true
}
"""


def order_build(coll, kinds, prefix, tagbase, nested=None):
    """returns (setup stmts, expr for the collection variable name)"""
    st = []
    names = []
    per = {"M": [], "R": []}
    for i, k in enumerate(kinds):
        v = "%si%d" % (prefix, i)
        st.append("let %s = any_below(T_IDX | %d, 3);" % (v, tagbase + i))
        for o in per[k]:
            st.append("eng::assume(%s != %s);" % (v, o))
        per[k].append(v)
        nm = "%s%d" % (prefix, i)
        st.append("let %s = pick_%s(&u, %s);" % (nm, k.lower(), v))
        names.append(nm)
    if nested is None:
        data = "(" + ", ".join(names) + ("," if len(names) == 1 else "") + ")"
        st.append("let %sdata = %s;" % (prefix, data))
        st.append("let %sc = %s.unwrap();" % (prefix, ctor(coll, prefix + "data")))
    else:
        # first two members go through a nested collection, the rest are listed directly
        inner = "(" + ", ".join(names[:2]) + ")"
        st.append("let %sidata = %s;" % (prefix, inner))
        st.append("let %sic = %s.unwrap();" % (prefix, ctor(nested, prefix + "idata")))
        rest = ", ".join(["&%sic" % prefix] + names[2:])
        st.append("let %sdata = (%s,);" % (prefix, rest) if len(names) == 2 else "let %sdata = (%s);" % (prefix, rest))
        st.append("let %sc = %s.unwrap();" % (prefix, ctor(coll, prefix + "data")))
    return st


def order_entry(ca, ka, cb, kb, mode="lock", nested_a=None, nested_b=None, owned=False, env="q"):
    L = ["w().reset(%s);" % ("true" if env == "a" else "false"), "let u = universe();"]
    if env == "a":
        L.append("w().interference_left.set(1);")
    L += order_build(ca, ka, "a", 0, nested_a)
    if owned:
        # an owned group listed inside collection B is one indivisible unit at its own address
        L.append("let og = OwnedLockCollection::new((new_m(6), new_m(7)));")
        L += order_build(cb, kb, "b", 8, None)[:-2]
        names_b = ["b%d" % i for i in range(len(kb))]
        L.append("let bdata = (%s);" % ", ".join([names_b[0], "&og"] + names_b[1:]))
        L.append("let bc = %s.unwrap();" % ctor(cb, "bdata"))
    else:
        L += order_build(cb, kb, "b", 8, nested_b)
    L.append("w().log_on.set(true);")
    L.append("let mut sa = [0u8; 8]; let mut sb = [0u8; 8]; let mut sa2 = [0u8; 8];")
    L.append("let g = ac.%s(key()); drop(g);" % mode)
    L.append("let na = acq_seq(0, &mut sa);")
    L.append("let mark1 = w().log_len.get();")
    L.append("let g = bc.%s(key()); drop(g);" % mode)
    L.append("let nb = acq_seq(mark1, &mut sb);")
    L.append("let mark2 = w().log_len.get();")
    L.append("let g = ac.%s(key()); drop(g);" % mode)
    L.append("let na2 = acq_seq(mark2, &mut sa2);")
    L.append("vcheck!(na == %d && nb == %d, M_NOT_ALL_HELD);" % (len(ka), len(kb) + (2 if owned else 0)))
    L.append("vcheck!(consistent(&sa, na, &sb, nb), M_ORDER);")
    # (ascending address order is what the code does today, but the property only asks for ONE common order:
    #  it is not demanded here)
    L.append("vcheck!(same_seq(&sa, na, &sa2, na2), M_ORDER);")
    if owned:
        L.append("let p6 = pos(&sb, nb, 6); let p7 = pos(&sb, nb, 7);")
        L.append("vcheck!(p6 != 99 && p7 == p6 + 1, M_ORDER);")
    L.append("vcheck!(!w().held_any(), M_HELD_AFTER_ERR);")
    L.append("vreach!(3);")
    nm = "ord_%s%s_%s__%s%s_%s__%s%s%s" % (ca, ("_n" + nested_a) if nested_a else "", ka.lower(), cb, ("_n" + nested_b) if nested_b else "",
                                        kb.lower(), mode, "_owned" if owned else "", "_contended" if env == "a" else "")
    return nm, fn_wrap(nm, L)


def order_ownedref_entry(fields, mode):
    L = ["w().reset(false);", "let mut u = universe();"]
    L.append("let t = (" + ", ".join("&mut u.%s" % f for f in fields) + ");")
    L.append("let ca = RefLockCollection::new(&t);")
    L.append("let cb = RefLockCollection::try_new(&t).unwrap();")
    L.append("let cc = BoxedLockCollection::new_ref(&t);")
    L.append("let cd = RetryingLockCollection::new_ref(&t);")
    L.append("let ce = BoxedLockCollection::try_new((&cd,)).unwrap();")
    L.append("w().log_on.set(true);")
    L.append("let mut sa = [0u8; 8]; let mut sb = [0u8; 8]; let mut sc = [0u8; 8]; let mut se = [0u8; 8];")
    L.append("let g = ca.%s(key()); drop(g);" % mode)
    L.append("let na = acq_seq(0, &mut sa);")
    L.append("let m1 = w().log_len.get();")
    L.append("let g = cb.%s(key()); drop(g);" % mode)
    L.append("let nb = acq_seq(m1, &mut sb);")
    L.append("let m2 = w().log_len.get();")
    L.append("let g = cc.%s(key()); drop(g);" % mode)
    L.append("let nc = acq_seq(m2, &mut sc);")
    L.append("let m3 = w().log_len.get();")
    L.append("let g = ce.%s(key()); drop(g);" % mode)
    L.append("let ne = acq_seq(m3, &mut se);")
    n = len(fields)
    L.append("vcheck!(na == %d && nb == %d && nc == %d && ne == %d, M_NOT_ALL_HELD);" % (n, n, n, n))
    L.append("vcheck!(consistent(&sa, na, &sb, nb) && consistent(&sa, na, &sc, nc) && consistent(&sb, nb, &sc, nc) && consistent(&se, ne, &sb, nb), M_ORDER);")
    L.append("vcheck!(!w().held_any(), M_HELD_AFTER_ERR);")
    L.append("vreach!(3);")
    nm = "ord_ownedref_%s__%s" % ("".join(fields), mode)
    return nm, fn_wrap(nm, L)


def gen_order(tier):
    out = [HEADER, ORDER_HELPERS]
    names = []
    for fields, mode in ((("m2", "r0", "m0"), "lock"), (("r2", "r0", "r1"), "read"), (("m0", "r1", "m1"), "lock")):
        nm, txt = order_ownedref_entry(fields, mode)
        names.append(nm)
        out.append(txt)
    combos = [("boxed", "MRM", "ref", "MRM", "lock", None, None, False),
              ("boxed", "MRM", "boxed", "RM", "lock", None, None, False),
              ("ref", "RRR", "boxed", "RR", "read", None, None, False),
              ("boxed", "MRM", "ref", "MRM", "lock", "boxed", None, False),
              ("boxed", "MMR", "ref", "MRM", "lock", "retry", "ref", False),
              ("ref", "MRM", "boxed", "MR", "lock", None, None, True)]
    if tier != "quick":
        combos += [("boxed", "MRMR", "ref", "MRMR", "lock", None, None, False),
                   ("ref", "MRM", "ref", "MRM", "lock", "ref", "boxed", False),
                   ("boxed", "RRR", "ref", "RRR", "read", "retry", None, False),
                   ("boxed", "RRR", "boxed", "RRR", "lock", None, None, False),
                   ("boxed", "MRM", "ref", "RM", "lock", None, None, True)]
    for c in combos:
        nm, txt = order_entry(*c)
        names.append(nm)
        out.append(txt)
    # the same order must be used when members are contended (other threads hold some of them)
    for c in [("boxed", "MR", "ref", "MRM", "lock", None, None, False), ("ref", "RR", "boxed", "RRR", "read", None, None, False),
              ("boxed", "RRR", "ref", "RR", "read", None, None, False)]:
        nm, txt = order_entry(*c, env="a")
        names.append(nm)
        out.append(txt)
    return "\n".join(out), names


# ------------------------------------------------------------------------------------------
# C06: at most one live key per thread, over histories
# ------------------------------------------------------------------------------------------
KEY_HARNESS = """
pub struct H {
	cur: Option<ThreadKey>,
	alive: bool,
}

fn other_thread_body() {
	// keys of different threads are independent: a fresh thread always gets its key, exactly once
	let k = ThreadKey::get();
	vcheck!(k.is_some(), M_KEY_MODEL);
	let k2 = ThreadKey::get();
	vcheck!(k2.is_none(), M_KEY_MODEL);
	drop(k);
	let k3 = ThreadKey::get();
	vcheck!(k3.is_some(), M_KEY_MODEL);
	core::mem::forget(k3);
	vcheck!(ThreadKey::get().is_none(), M_KEY_MODEL);
}

fn key_step(op: u8, h: &mut H, m: &M, busy: &M, r: &R, po: &PM, coll: &BoxedLockCollection<(&M, &R)>) {
	eng::event(E_MARK, 9200 + op as u32, 0);
	match op {
		0 => {
			let g = ThreadKey::get();
			vcheck!(g.is_some() == !h.alive, M_KEY_MODEL);
			if let Some(k) = g {
				h.cur = Some(k);
				h.alive = true;
			}
		}
		1 => {
			if let Some(k) = h.cur.take() {
				drop(k);
				h.alive = false;
			}
		}
		2 => {
			if let Some(k) = h.cur.take() {
				core::mem::forget(k);
			}
		}
		3 => {
			if let Some(k) = h.cur.take() {
				let g = m.lock(k);
				vcheck!(ThreadKey::get().is_none(), M_KEY_MODEL);
				drop(g);
				h.alive = false;
			}
		}
		4 => {
			if let Some(k) = h.cur.take() {
				let g = r.read(k);
				h.cur = Some(crate::rwlock::RwLock::unlock_read(g));
			}
		}
		5 => {
			if let Some(k) = h.cur.take() {
				if !raw_m(m).held_by_t0() {
					let g = m.lock(k);
					core::mem::forget(g);
				} else {
					h.cur = Some(k);
				}
			}
		}
		6 => {
			if let Some(k) = h.cur.take() {
				match busy.try_lock(k) {
					Ok(g) => {
						vcheck!(false, M_TRY_VERDICT);
						drop(g);
						h.alive = false;
					}
					Err(kb) => {
						h.cur = Some(kb);
					}
				}
			}
		}
		7 => {
			if let Some(k) = h.cur.take() {
				match r.try_write(k) {
					Ok(g) => {
						vcheck!(ThreadKey::get().is_none(), M_KEY_MODEL);
						drop(g);
						h.alive = false;
					}
					Err(kb) => {
						h.cur = Some(kb);
					}
				}
			}
		}
		8 => {
			if let Some(mut k) = h.cur.take() {
				r.scoped_write(&mut k, |_d| {
					vcheck!(ThreadKey::get().is_none(), M_KEY_MODEL);
				});
				h.cur = Some(k);
			}
		}
		9 => {
			if let Some(k) = h.cur.take() {
				// owned key, shared scoped call, user code may panic: the key must come back either way
				let res = catch_unwind(AssertUnwindSafe(move || {
					r.scoped_read(k, |_d| {
						vcheck!(ThreadKey::get().is_none(), M_KEY_MODEL);
						user_point(3);
					})
				}));
				core::mem::forget(res);
				h.alive = false;
			}
		}
		10 => {
			if let Some(mut k) = h.cur.take() {
				let res = catch_unwind(AssertUnwindSafe(|| {
					r.scoped_write(&mut k, |_d| {
						eng::inject_panic();
					})
				}));
				vcheck!(res.is_err(), M_NO_PANIC);
				core::mem::forget(res);
				h.cur = Some(k);
			}
		}
		11 => {
			if let Some(k) = h.cur.take() {
				let res = catch_unwind(AssertUnwindSafe(move || {
					r.scoped_write(k, |_d| {
						eng::inject_panic();
					})
				}));
				vcheck!(res.is_err(), M_NO_PANIC);
				core::mem::forget(res);
				h.alive = false;
			}
		}
		12 => {
			if let Some(k) = h.cur.take() {
				let res = catch_unwind(AssertUnwindSafe(move || {
					let g = r.write(k);
					eng::inject_panic();
					drop(g);
				}));
				vcheck!(res.is_err(), M_NO_PANIC);
				core::mem::forget(res);
				h.alive = false;
			}
		}
		13 => {
			if let Some(k) = h.cur.take() {
				// poisoned or not: the result carries the guard, dropping it gives the key up
				match po.lock(k) {
					Ok(g) => drop(g),
					Err(e) => {
						let g = e.into_inner();
						vcheck!(ThreadKey::get().is_none(), M_KEY_MODEL);
						drop(g);
					}
				}
				h.alive = false;
			}
		}
		14 => {
			if let Some(k) = h.cur.take() {
				let res = catch_unwind(AssertUnwindSafe(move || {
					let g = po.lock(k);
					eng::inject_panic();
					drop(g);
				}));
				core::mem::forget(res);
				h.alive = false;
			}
		}
		15 => {
			if let Some(k) = h.cur.take() {
				match po.try_lock(k) {
					Ok(g) => {
						h.cur = Some(Poisonable::<M>::unlock(g));
					}
					Err(crate::poisonable::TryLockPoisonableError::Poisoned(e)) => {
						h.cur = Some(Poisonable::<M>::unlock(e.into_inner()));
					}
					Err(crate::poisonable::TryLockPoisonableError::WouldBlock(kb)) => {
						h.cur = Some(kb);
					}
				}
			}
		}
		16 => {
			if let Some(k) = h.cur.take() {
				if !raw_m(m).held_by_t0() {
					let g = coll.lock(k);
					h.cur = Some(BoxedLockCollection::<(&M, &R)>::unlock(g));
				} else {
					h.cur = Some(k);
				}
			}
		}
		17 => {
			if let Some(k) = h.cur.take() {
				match coll.try_lock(k) {
					Ok(g) => {
						core::mem::forget(g);
					}
					Err(kb) => {
						h.cur = Some(kb);
					}
				}
			}
		}
		18 => {
			eng::on_thread(1, other_thread_body);
		}
		_ => {
			if let Some(k) = h.cur.take() {
				if !raw_m(m).held_by_t0() {
					let res = catch_unwind(AssertUnwindSafe(move || {
						coll.scoped_lock(k, |_d| {
							vcheck!(ThreadKey::get().is_none(), M_KEY_MODEL);
							user_point(4);
							3u8
						})
					}));
					core::mem::forget(res);
					h.alive = false;
				} else {
					h.cur = Some(k);
				}
			}
		}
	}
	// probe: get() succeeds exactly when the thread's key is not alive
	let p = ThreadKey::get();
	vcheck!(p.is_some() == !h.alive, M_KEY_MODEL);
	if let Some(k) = p {
		if any_bool(T_MISC | 7) {
			h.cur = Some(k);
			h.alive = true;
		} else {
			drop(k);
		}
	}
}
"""


def gen_key(tier):
    n_ops = 20
    L = 3 if tier == "quick" else 4
    out = [HEADER, KEY_HARNESS]
    names = []
    # one entry per first opcode so that the work is spread over the cores
    for first in range(n_ops):
        B = ["w().reset(false);", "let u = universe();", "let po: PM = Poisonable::new(new_m(6));",
             "raw_m(&u.m1).st.set(ST_ENV); raw_m(&u.m1).sync();",
             "let coll = BoxedLockCollection::try_new((&u.m0, &u.r0)).unwrap();",
             "let mut h = H { cur: None, alive: false };", "w().user_panic_armed.set(true);",
             "if any_bool(T_MISC | 6) { h.cur = ThreadKey::get(); h.alive = true; vcheck!(h.cur.is_some(), M_KEY_MODEL); }",
             "key_step(%d, &mut h, &u.m0, &u.m1, &u.r0, &po, &coll);" % first]
        for i in range(1, L):
            B.append("let op%d = any_below(T_OPCODE | %d, %d);" % (i, i, n_ops))
            B.append("key_step(op%d, &mut h, &u.m0, &u.m1, &u.r0, &po, &coll);" % i)
        B.append("vcheck!(w().bad_release.get() == 0, M_BAD_RELEASE);")
        B.append("vreach!(3);")
        B.append("core::mem::forget(h);")
        nm = "key_hist_%d" % first
        names.append(nm)
        out.append(fn_wrap(nm, B))
    return "\n".join(out), names


# ------------------------------------------------------------------------------------------
# C02: data continuity and routing by declared position
# ------------------------------------------------------------------------------------------
def data_entry(shape):
    n = shape.n()
    L = ["w().reset(false);"] + shape.setup + shape.build
    for j in range(n):
        L.append("let v%d = any_u8(T_DATA | %d);" % (j, j))
    xm, sm = held_masks(shape, "w")
    # exclusive guard: write through every declared position
    L.append("let mut g = %s;" % unwrap_pois(shape, "coll.%s(key())" % ("lock" if shape.kind != "single_r" else "write")))
    for j, path in enumerate(shape.guard):
        L.append("%s = v%d;" % (path, j))
    L.append("vcheck!(w().held_x.get() == %s, M_NOT_HELD_IN_SECTION);" % xm)
    L.append("drop(g);")
    # read back: each leaf singly (shapes over references), so position j of the guard is member j
    for j, (i, k, ref) in enumerate(shape.leaves):
        if ref.startswith("&") or ref == "raw6" or shape.kind in ("single_m", "single_r"):
            continue
        api = "lock" if k == "M" else "read"
        L.append("{ let gj = %s.%s(key()); vcheck!(*gj == v%d, M_DATA); drop(gj); }" % (ref, api, j))
    # second exclusive section sees the values of the first, at the same positions; scoped closure too
    L.append("let mut g = %s;" % unwrap_pois(shape, "coll.%s(key())" % ("lock" if shape.kind != "single_r" else "write")))
    for j, path in enumerate(shape.guard):
        L.append("vcheck!(%s == v%d, M_DATA);" % (path, j))
        L.append("%s = v%d.wrapping_add(%d);" % (path, j, j + 1))
    L.append("drop(g);")
    if shape.kind not in ("pois",):
        dpaths = [p.replace("g", "d") for p in shape.guard]
        sapi = "scoped_lock" if shape.kind != "single_r" else "scoped_write"
        checks_ = " ".join("vcheck!(%s == v%d.wrapping_add(%d), M_DATA); %s = v%d;" % (p, j, j + 1, p, j) for j, p in enumerate(dpaths))
        if shape.kind in ("single_m", "single_r"):
            L.append("coll.%s(key(), |d| { vcheck!(w().held_x.get() == %s, M_NOT_HELD_IN_SECTION); %s });" % (sapi, xm, checks_))
        else:
            L.append("coll.%s(key(), |mut d| { vcheck!(w().held_x.get() == %s, M_NOT_HELD_IN_SECTION); %s });" % (sapi, xm, checks_))
        final = ["v%d" % j for j in range(n)]
    else:
        final = ["v%d.wrapping_add(%d)" % (j, j + 1) for j in range(n)]
    if shape.sharable and shape.rguard:
        rx, rs = held_masks(shape, "r")
        L.append("let g = %s;" % unwrap_pois(shape, "coll.read(key())"))
        for j, path in enumerate(shape.rguard):
            L.append("vcheck!(%s == %s, M_DATA);" % (path, final[j]))
        L.append("vcheck!(w().held_s.get() == %s, M_NOT_HELD_IN_SECTION);" % rs)
        L.append("drop(g);")
    for j, (i, k, ref) in enumerate(shape.leaves):
        if ref.startswith("&") or ref == "raw6" or shape.kind in ("single_m", "single_r"):
            continue
        api = "lock" if k == "M" else "read"
        L.append("{ let gj = %s.%s(key()); vcheck!(*gj == %s, M_DATA); drop(gj); }" % (ref, api, final[j]))
    L.append("vcheck!(!w().held_any(), M_HELD_AFTER_ERR);")
    L.append("vreach!(3);")
    nm = "data_%s" % shape.name
    return nm, fn_wrap(nm, L)


def gen_data(tier):
    out = [HEADER]
    names = []
    for sh in all_shapes(tier):
        if not sh.guard:
            continue
        nm, txt = data_entry(sh)
        names.append(nm)
        out.append(txt)
    return "\n".join(out), names


# ------------------------------------------------------------------------------------------
# C16: values dropped exactly once and round-trip unchanged
# ------------------------------------------------------------------------------------------
DROP_PRELUDE = """
use core::cell::Cell;
use crate::lockable::{LockableGetMut, LockableIntoInner};

pub struct D {
	pub id: u8,
	pub val: u8,
}
pub struct SyncDrops(pub [Cell<u8>; 8]);
unsafe impl Sync for SyncDrops {}
#[allow(clippy::declare_interior_mutable_const)]
const CZ: Cell<u8> = Cell::new(0);
pub static DROPS: SyncDrops = SyncDrops([CZ; 8]);
impl Drop for D {
	fn drop(&mut self) {
		let c = &DROPS.0[self.id as usize];
		c.set(c.get() + 1);
	}
}
pub type MD = crate::mutex::Mutex<D, AuditMutex>;
pub type RD = crate::rwlock::RwLock<D, AuditRwLock>;
pub fn md(id: u8, val: u8) -> MD {
	let m: MD = crate::mutex::Mutex::new(D { id, val });
	unsafe { m.raw() }.id.set(id);
	m
}
pub fn rd(id: u8, val: u8) -> RD {
	let r: RD = crate::rwlock::RwLock::new(D { id, val });
	unsafe { r.raw() }.id.set(id);
	r
}
fn reset_drops() {
	let mut i = 0;
	while i < 8 {
		DROPS.0[i].set(0);
		i += 1;
	}
}
pub fn dropped(i: usize) -> u8 {
	DROPS.0[i].get()
}
/// every payload 0..n was dropped exactly once, nothing else was
pub fn all_once(n: usize) -> bool {
	let mut i = 0;
	while i < 8 {
		if dropped(i) != (if i < n { 1 } else { 0 }) {
			return false;
		}
		i += 1;
	}
	true
}
pub fn none_dropped() -> bool {
	let mut i = 0;
	while i < 8 {
		if dropped(i) != 0 {
			return false;
		}
		i += 1;
	}
	true
}
"""


def drop_entries(tier):
    E = []

    def add(name, body, n):
        L = ["w().reset(false);", "reset_drops();"]
        L += ["let v0 = any_u8(T_DATA | 0);", "let v1 = any_u8(T_DATA | 1);", "let v2 = any_u8(T_DATA | 2);"]
        L.append("{")
        L += ["\t" + x for x in body]
        L.append("}")
        L.append("vcheck!(all_once(%d), M_DROP_COUNT);" % n)
        L.append("vcheck!(!w().held_any() && w().bad_release.get() == 0, M_HELD_AFTER_ERR);")
        L.append("vreach!(3);")
        E.append((name, fn_wrap(name, L)))

    tuple3 = "(md(0, 10), rd(1, 11), md(2, 12))"
    write3 = ["{ let mut g = c.lock(key()); g.0.val = v0; g.1.val = v1; g.2.val = v2; }"]
    for kind, ctor_new in (("boxed", "BoxedLockCollection::new"), ("owned", "OwnedLockCollection::new"), ("retry", "RetryingLockCollection::new")):
        add("drop_%s_plain" % kind, ["let c = %s(%s);" % (ctor_new, tuple3)] + write3 + ["vcheck!(none_dropped(), M_DROP_COUNT);", "drop(c);"], 3)
        add("drop_%s_into_inner" % kind, ["let c = %s(%s);" % (ctor_new, tuple3)] + write3 + [
            "let (a, b, d) = c.into_inner();", "vcheck!(none_dropped(), M_DROP_COUNT);",
            "vcheck!(a.val == v0 && b.val == v1 && d.val == v2 && a.id == 0 && b.id == 1 && d.id == 2, M_DATA);"], 3)
        add("drop_%s_into_child" % kind, ["let c = %s(%s);" % (ctor_new, tuple3)] + write3 + [
            "let t = c.into_child();", "vcheck!(none_dropped(), M_DROP_COUNT);",
            "let a = t.0.into_inner(); let b = t.1.into_inner(); let d = t.2.into_inner();",
            "vcheck!(a.val == v0 && b.val == v1 && d.val == v2, M_DATA);"], 3)
    for kind, ctor_new in (("owned", "OwnedLockCollection::new"), ("retry", "RetryingLockCollection::new")):
        add("drop_%s_get_mut" % kind, ["let mut c = %s(%s);" % (ctor_new, tuple3),
                                      "{ let t = c.get_mut(); t.0.val = v0; t.1.val = v1; t.2.val = v2; }",
                                      "{ let g = c.lock(key()); vcheck!(g.0.val == v0 && g.1.val == v1 && g.2.val == v2, M_DATA); }",
                                      "vcheck!(none_dropped(), M_DROP_COUNT);"], 3)
    for kind, ctor_new in (("boxed", "BoxedLockCollection::new"), ("owned", "OwnedLockCollection::new"), ("retry", "RetryingLockCollection::new")):
        add("drop_%s_during_unwind" % kind, [
            "let r = catch_unwind(AssertUnwindSafe(|| {", "\tlet c = %s(%s);" % (ctor_new, tuple3),
            "\t{ let mut g = c.lock(key()); g.0.val = v0; }", "\teng::inject_panic();", "\tdrop(c);", "}));", "drop(r);"], 3)
        add("drop_%s_nested_during_unwind" % kind, [
            "let r = catch_unwind(AssertUnwindSafe(|| {",
            "\tlet c = %s((BoxedLockCollection::new((md(0, 10), md(1, 11))), md(2, 12)));" % ctor_new,
            "\tlet res = c.scoped_lock(key(), |_d| { eng::inject_panic(); });", "\tdrop(c);", "}));", "drop(r);"], 3)
    # checked constructors rejecting their input: referenced locks stay alive, owned members are dropped once
    for kind, c in (("boxed", "BoxedLockCollection::try_new"), ("retry", "RetryingLockCollection::try_new")):
        add("drop_%s_reject" % kind, ["let m = md(0, 10);", "let r = %s((&m, md(1, 11), &m));" % c,
                                      "vcheck!(r.is_none(), M_DUP_VERDICT);", "drop(r);",
                                      "vcheck!(dropped(0) == 0 && dropped(1) == 1, M_DROP_COUNT);",
                                      "{ let mut g = m.lock(key()); g.val = v0; }",
                                      "let d = m.into_inner();", "vcheck!(d.val == v0, M_DATA);"], 2)
        add("drop_%s_accept_refs_uo" % kind, ["let m = md(0, 10); let r2 = rd(1, 11);",
                                           "let c = %s((&m, &r2, md(2, 12))).unwrap();" % c] + write3 + [
            "drop(c);", "vcheck!(dropped(0) == 0 && dropped(1) == 0 && dropped(2) == 1, M_DROP_COUNT);",
            "vcheck!(m.into_inner().val == v0 && r2.into_inner().val == v1, M_DATA);"], 3)
    add("drop_ref_new", ["let t = %s;" % tuple3, "{ let c = RefLockCollection::new(&t);"] + ["\t" + w_ for w_ in write3] + ["}",
        "vcheck!(none_dropped(), M_DROP_COUNT);", "let (a, b, d) = (t.0.into_inner(), t.1.into_inner(), t.2.into_inner());",
        "vcheck!(a.val == v0 && b.val == v1 && d.val == v2, M_DATA);"], 3)
    # arrays, vectors, boxed slices
    arr3 = "[md(0, 10), md(1, 11), md(2, 12)]"
    writea = ["{ let mut g = c.lock(key()); g[0].val = v0; g[1].val = v1; g[2].val = v2; }"]
    for kind, ctor_new in (("boxed", "BoxedLockCollection::new"), ("owned", "OwnedLockCollection::new"), ("retry", "RetryingLockCollection::new")):
        add("drop_%s_array_into_inner" % kind, ["let c = %s(%s);" % (ctor_new, arr3)] + writea + [
            "let a = c.into_inner();", "vcheck!(a[0].val == v0 && a[1].val == v1 && a[2].val == v2, M_DATA);",
            "vcheck!(none_dropped(), M_DROP_COUNT);"], 3)
        add("drop_%s_vec_into_inner" % kind, ["let c = %s(vec!%s);" % (ctor_new, arr3)] + writea + [
            "let a = c.into_inner();", "vcheck!(a.len() == 3 && a[0].val == v0 && a[1].val == v1 && a[2].val == v2, M_DATA);",
            "vcheck!(none_dropped(), M_DROP_COUNT);"], 3)
        add("drop_%s_vec_into_iter_partial" % kind, ["let c = %s(vec!%s);" % (ctor_new, arr3)] + writea + [
            "let mut it = c.into_iter();", "let first = it.next().unwrap();",
            "vcheck!(first.into_inner().val == v0, M_DATA);", "vcheck!(dropped(0) == 1 && dropped(1) == 0, M_DROP_COUNT);", "drop(it);"], 3)
        add("drop_%s_array_plain" % kind, ["let c = %s(%s);" % (ctor_new, arr3)] + writea + ["drop(c);"], 3)
    add("drop_owned_vec_extend", ["let mut c = OwnedLockCollection::new(vec![md(0, 10)]);", "c.extend([md(1, 11), md(2, 12)]);",
                                  "{ let mut g = c.lock(key()); vcheck!(g.len() == 3, M_DATA); g[0].val = v0; g[2].val = v2; }",
                                  "let a = c.into_inner();", "vcheck!(a.len() == 3 && a[0].val == v0 && a[1].val == 11 && a[2].val == v2, M_DATA);"], 3)
    add("drop_retry_vec_extend", ["let mut c = RetryingLockCollection::new(vec![md(0, 10)]);", "c.extend([md(1, 11), md(2, 12)]);",
                                  "{ let mut g = c.lock(key()); vcheck!(g.len() == 3, M_DATA); g[1].val = v1; }",
                                  "let a = c.into_inner();", "vcheck!(a[0].val == 10 && a[1].val == v1 && a[2].val == 12, M_DATA);"], 3)
    add("drop_boxed_boxed_slice", ["let b: Box<[MD]> = vec!%s.into_boxed_slice();" % arr3, "let c = BoxedLockCollection::new(b);"] + writea + [
        "let a = c.into_inner();", "vcheck!(a[0].val == v0 && a[1].val == v1 && a[2].val == v2, M_DATA);"], 3)
    # poisonable and single locks
    add("drop_pois_into_inner", ["let p = Poisonable::new(md(0, 10));", "{ let mut g = p.lock(key()).unwrap(); g.val = v0; }",
                                 "let d = p.into_inner().unwrap();", "vcheck!(d.val == v0 && none_dropped(), M_DATA);"], 1)
    add("drop_pois_poisoned_into_inner", ["let p = Poisonable::new(md(0, 10));",
                                          "let r = catch_unwind(AssertUnwindSafe(|| { let mut g = p.lock(key()).unwrap(); g.val = v0; eng::inject_panic(); }));",
                                          "drop(r);", "vcheck!(p.is_poisoned(), M_POISON_MODEL);",
                                          "match p.into_inner() { Ok(_d) => { vcheck!(false, M_POISON_MODEL); } Err(e) => { let d = e.into_inner(); vcheck!(d.val == v0, M_DATA); } }"], 1)
    add("drop_pois_into_child_get_mut", ["let mut p = Poisonable::new(md(0, 10));", "p.get_mut().unwrap().val = v0;",
                                         "let m = p.into_child().unwrap();", "vcheck!(m.into_inner().val == v0, M_DATA);"], 1)
    add("drop_single", ["let mut m = md(0, 10); let r = rd(1, 11);", "m.get_mut().val = v0;",
                        "{ let mut g = r.write(key()); g.val = v1; }", "vcheck!(none_dropped(), M_DROP_COUNT);",
                        "vcheck!(m.into_inner().val == v0 && r.into_inner().val == v1, M_DATA);"], 2)
    add("drop_nested", ["let c = BoxedLockCollection::new((OwnedLockCollection::new((md(0, 10), md(1, 11))), RetryingLockCollection::new((md(2, 12),))));",
                        "{ let mut g = c.lock(key()); (g.0).0.val = v0; (g.0).1.val = v1; (g.1).0.val = v2; }",
                        "let ((a, b), (d,)) = c.into_inner();", "vcheck!(a.val == v0 && b.val == v1 && d.val == v2, M_DATA);"], 3)
    return E


def gen_drop(tier):
    out = [HEADER, DROP_PRELUDE]
    names = []
    for nm, txt in drop_entries(tier):
        names.append(nm)
        out.append(txt)
    return "\n".join(out), names


# ------------------------------------------------------------------------------------------
# C17: non-acquiring operations never wait and never disturb holds
# ------------------------------------------------------------------------------------------
NA_CHECK = ("vcheck!(w().blocking_ops.get() == b0 && w().wait_events.get() == 0, M_BLOCKING_IN_TRY); "
            "vcheck!(w().snapshot() == snap0, M_STATE_CHANGED); vcheck!(w().bad_release.get() == 0, M_BAD_RELEASE);")
NA_NOOPS = ""  # (zero raw operations would be more than the statement asks)


def na_ops(shape, inside_hold):
    """(rust statement, touches raw locks?) list of non-acquiring operations on `coll` and its members"""
    ops = []
    kind = shape.kind
    obj = "coll" if kind not in ("single_m", "single_r") else "*coll"
    ops.append(("vcheck!(eng::debug_fmt(&%s), M_OTHER);" % obj, True))
    for (i, k, ref) in shape.leaves:
        if ref.startswith("&") or ref == "raw6":
            continue
        ops.append(("vcheck!(eng::debug_fmt(%s), M_OTHER);" % ref, True))
    if kind in ("boxed", "retry", "ref"):
        ops.append(("let _c = coll.child();", False))
        ops.append(("vcheck!(eng::debug_fmt(coll.child()), M_OTHER);", True))
    if kind == "pois":
        ops.append(("let _p = coll.is_poisoned();", False))
        ops.append(("coll.clear_poison();", False))
    # constructors (including the duplicate check) over the same, possibly held, locks
    refs = [ref for (i, k, ref) in shape.leaves if not (ref.startswith("&") or ref == "raw6")]
    if len(refs) >= 2 and kind in ("boxed", "retry", "ref"):
        tup = "(" + ", ".join(refs) + ")"
        ops.append(("{ let t2 = %s; let c2 = BoxedLockCollection::try_new(t2); vcheck!(c2.is_some(), M_DUP_VERDICT); }" % tup, False))
        ops.append(("{ let t2 = %s; let c2 = RetryingLockCollection::try_new(t2); vcheck!(c2.is_some(), M_DUP_VERDICT); }" % tup, False))
        ops.append(("{ let t2 = %s; let c2 = RefLockCollection::try_new(&t2); vcheck!(c2.is_some(), M_DUP_VERDICT); }" % tup, False))
        ops.append(("{ let t2 = (%s, %s); let c2 = BoxedLockCollection::try_new(t2); vcheck!(c2.is_none(), M_DUP_VERDICT); }" % (refs[0], refs[0]), False))
    return ops


def na_entry(shape, variant):
    L = ["w().reset(false);"] + shape.setup
    if variant == "env":
        L += pre_stmts(shape)
    L += shape.build
    owned = shape.build[-1].startswith("let coll = ") and ("::new(" in shape.build[-1]) and shape.kind in ("owned", "retry", "boxed", "pois")
    if owned and variant == "env":
        L[-1] = L[-1].replace("let coll", "let mut coll", 1)
    ops = na_ops(shape, variant != "env")
    body = []
    for stmt, touches in ops:
        body.append("let ops0 = w().ops.get();")
        body.append(stmt)
        if not touches:
            body.append(NA_NOOPS)
        body.append(NA_CHECK)
    if variant == "env":
        L.append("let snap0 = w().snapshot(); let b0 = w().blocking_ops.get();")
        L += body
        if owned:
            # consuming / exclusive accessors while the members are held by other threads
            L.append("let ops0 = w().ops.get();")
            if shape.kind in ("owned", "retry"):
                L.append("{ let _gm = coll.get_mut(); }")
                L.append(NA_NOOPS + " " + NA_CHECK)
                L.append("{ let _cm = coll.child_mut(); }")
                L.append(NA_NOOPS + " " + NA_CHECK)
            if shape.kind == "pois":
                if shape.name != "po_bx":
                    L.append("{ let _gm = coll.get_mut(); }")
                L.append("{ let _cm = coll.child_mut(); }")
                L.append(NA_NOOPS + " " + NA_CHECK)
            if any_bool_stmt():
                L.append("if any_bool(T_MISC | 3) { let inner = coll.into_inner(); %s %s core::mem::forget(inner); } else { let ch = coll.into_child(); %s %s core::mem::forget(ch); }"
                         % (NA_NOOPS, NA_CHECK, NA_NOOPS, NA_CHECK))
    elif variant == "guard":
        acq = "lock" if shape.kind != "single_r" else "write"
        L.append("let g = %s;" % unwrap_pois(shape, "coll.%s(key())" % acq))
        L.append("let snap0 = w().snapshot(); let b0 = w().blocking_ops.get();")
        L.append("let ops0 = w().ops.get();")
        L.append("vcheck!(eng::debug_fmt(&g), M_OTHER);")
        L.append(NA_NOOPS + " " + NA_CHECK)
        L += body
        L.append("drop(g);")
        if shape.sharable:
            L.append("let g = %s;" % unwrap_pois(shape, "coll.read(key())"))
            L.append("let snap0 = w().snapshot(); let b0 = w().blocking_ops.get();")
            L.append("vcheck!(eng::debug_fmt(&g), M_OTHER);")
            L += body
            L.append("drop(g);")
    else:
        sapi = {"single_m": "scoped_lock", "single_r": "scoped_write"}.get(shape.kind, "scoped_lock")
        L.append("let b0 = w().blocking_ops.get() + 1 - 1;")
        inner = ["let snap0 = w().snapshot(); let b0 = w().blocking_ops.get();"] + body
        L.append("coll.%s(key(), |_d| {" % sapi)
        L += ["\t" + x for x in inner]
        L.append("});")
    L.append("vcheck!(!w().held_any(), M_HELD_AFTER_ERR);")
    L.append("vreach!(3);")
    nm = "na_%s__%s" % (shape.name, variant)
    return nm, fn_wrap(nm, L)


def any_bool_stmt():
    return True


NA_PANIC_DEBUG = """
pub struct PD(pub u8);
impl core::fmt::Debug for PD {
	fn fmt(&self, f: &mut core::fmt::Formatter<'_>) -> core::fmt::Result {
		user_point(7);
		if any_bool(T_MISC | 8) {
			return Err(core::fmt::Error);
		}
		f.write_str("pd")
	}
}
"""


def na_panicking_debug_entries():
    E = []
    for k, ty, ctor in (("m", "crate::mutex::Mutex<PD, AuditMutex>", "crate::mutex::Mutex::new(PD(1))"),
                        ("r", "crate::rwlock::RwLock<PD, AuditRwLock>", "crate::rwlock::RwLock::new(PD(1))")):
        L = ["w().reset(false);", "w().user_panic_armed.set(true);", "let x: %s = %s;" % (ty, ctor),
             "unsafe { x.raw() }.id.set(6);", "let y: %s = %s;" % (ty, ctor), "unsafe { y.raw() }.id.set(7);"]
        if k == "m":
            L.append("if any_bool(T_PRE | 6) { unsafe { x.raw() }.st.set(ST_ENV); unsafe { x.raw() }.sync(); }")
        else:
            L.append("let p = any_below(T_PRE | 6, 3); unsafe { x.raw() }.x.set(if p == 2 { ST_ENV } else { ST_FREE }); unsafe { x.raw() }.se.set(if p == 1 { 1 } else { 0 }); unsafe { x.raw() }.sync();")
        L.append("let t = (&x, &y);")
        L.append("let coll = RefLockCollection::try_new(&t).unwrap();")
        L.append("let ow: OwnedLockCollection<(%s,)> = OwnedLockCollection::new((%s,));" % (ty, ctor))
        L.append("let snap0 = w().snapshot(); let b0 = w().blocking_ops.get();")
        for target in ("&x", "&coll", "&t", "&ow"):
            L.append("{ let r = catch_unwind(AssertUnwindSafe(|| { eng::debug_fmt(%s) })); core::mem::forget(r); }" % target)
            L.append(NA_CHECK)
            L.append("vcheck!(!w().held_any(), M_HELD_AFTER_ERR);")
        L.append("vreach!(3);")
        nm = "na_dbgpanic_%s" % k
        E.append((nm, fn_wrap(nm, L)))
    return E


def gen_nonacq(tier):
    out = [HEADER, NA_PANIC_DEBUG]
    names = []
    for nm, txt in na_panicking_debug_entries():
        names.append(nm)
        out.append(txt)
    for sh in all_shapes(tier):
        for variant in ("env", "guard", "scoped"):
            if sh.kind == "ref" and False:
                continue
            nm, txt = na_entry(sh, variant)
            names.append(nm)
            out.append(txt)
    return "\n".join(out), names


# ------------------------------------------------------------------------------------------
# sequences of two complete API calls over shapes that share locks (single-thread clause of C01, C03, C05)
# ------------------------------------------------------------------------------------------
def rename_shape_code(lines, suffix):
    import re
    out = []
    for l in lines:
        if l.strip() == "let u = universe();":
            continue
        l = re.sub(r"\b(i|l)(\d)\b", lambda m: ("j" if m.group(1) == "i" else "k") + m.group(2), l)
        l = re.sub(r"\b(coll|tup|inner)\b", lambda m: m.group(1) + suffix, l)
        out.append(l)
    return out


def call_stmts(shape, api, mode, blocking, style, coll="coll"):
    """one complete API call (acquire + release) threading the key; returns statements"""
    L = ["w().api_begin();"]
    if style == "guard":
        if blocking:
            L.append("{ let g = %s; drop(g); }" % unwrap_pois(shape, "%s.%s(key())" % (coll, api)))
        else:
            if is_pois(shape):
                L.append("match %s.%s(key()) { Ok(g) => drop(g), Err(crate::poisonable::TryLockPoisonableError::Poisoned(e)) => drop(e.into_inner()), Err(crate::poisonable::TryLockPoisonableError::WouldBlock(kb)) => drop(kb) }" % (coll, api))
            else:
                L.append("match %s.%s(key()) { Ok(g) => drop(g), Err(kb) => drop(kb) }" % (coll, api))
    else:
        if blocking:
            L.append("%s.%s(key(), |_d| { user_point(1); });" % (coll, api))
        else:
            L.append("let _ = %s.%s(key(), |_d| { user_point(1); });" % (coll, api))
    L.append("vcheck!(!w().held_any(), M_HELD_AT_KEY_BACK);")
    L.append("vcheck!(key_is_back(), M_KEY_MODEL);")
    return L


def seq_entry(sa, ca, sb, cb, budget, idx):
    L = ["w().reset(true);", "w().interference_left.set(%d);" % budget, "let u = universe();"]
    L += [x for x in sa.setup if x.strip() != "let u = universe();"] + sa.build
    L += rename_shape_code(sb.setup + sb.build, "b")
    L += call_stmts(sa, *ca)
    L += call_stmts(sb, *cb, coll="collb")
    L += call_stmts(sa, *ca)
    L += end_checks()
    L.append("vreach!(3);")
    nm = "seq%d_%s__%s__then__%s__%s" % (idx, sa.name, ca[0], sb.name, cb[0])
    return nm, fn_wrap(nm, L)


def gen_seq(tier, seed, count):
    import random
    from . import gen
    rng = random.Random("seq/%s" % seed)
    gen.FIXED_PICKS[0] = seed
    try:
        every = all_shapes(tier)
    finally:
        gen.FIXED_PICKS[0] = None
    shapes = [s for s in every if s.setup and s.setup[0].strip() == "let u = universe();" and not s.name.startswith("n_")]
    out = [HEADER]
    names = []
    budget = 2
    for idx in range(count):
        sa, sb = rng.choice(shapes), rng.choice(shapes)
        ca, cb = rng.choice(apis_for(sa)), rng.choice(apis_for(sb))
        nm, txt = seq_entry(sa, ca, sb, cb, budget, idx)
        names.append(nm)
        out.append(txt)
    return "\n".join(out), names
