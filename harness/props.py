"""Property harness templates: Rust entry points generated per shape x API flavour."""
from .gen import (HEADER, Shape, all_shapes, apis_for, fn_wrap, held_masks, indent, is_pois, oracle_try, pre_stmts,
                  try_match, unlock_fn, unwrap_pois)


def end_checks(key_back=True):
    out = [
        "vcheck!(!w().held_any(), M_HELD_AFTER_ERR);",
        "vcheck!(w().bad_release.get() == 0, M_BAD_RELEASE);",
        "vcheck!(w().held_at_api_begin.get() == 0, M_HELD_AT_API_BEGIN);",
    ]
    if key_back:
        out.append("vcheck!(key_is_back(), M_KEY_MODEL);")
    return out


def acq_entry(shape, api, mode, blocking, style, env, keystyle="owned", release="drop", user_panic=False, name=None, budget=3):
    """one acquisition + release of `shape` through `api`.
    env: 'q' quiescent with symbolic pre-state, 'a' adversarial.  Monitors of C03/C04/C05/C13/C09(a)."""
    xm, sm = held_masks(shape, mode)
    L = []
    L.append("w().reset(%s);" % ("true" if env == "a" else "false"))
    if env == "a":
        L.append("w().interference_left.set(%d);" % budget)
    L += shape.setup
    if env == "q":
        L += pre_stmts(shape)
    L += shape.build
    if shape.nested_owned_mask != "0":
        L.append("w().wait_ok_mask.set(%s);" % shape.nested_owned_mask)
    L.append("let snap0 = w().snapshot();")
    L.append("let orc = %s;" % oracle_try(shape, mode))
    held_ok = "w().held_x.get() == %s && w().held_s.get() == %s" % (xm, sm)
    if style == "guard":
        L.append("let k = key();")
        L.append("w().api_begin();")
        if blocking:
            L.append("let g = %s;" % unwrap_pois(shape, "coll.%s(k)" % api))
            L.append("vreach!(1);")
            L.append("vcheck!(%s, M_NOT_ALL_HELD);" % held_ok)
            if release == "drop":
                L.append("drop(g);")
            else:
                L.append("let kb = %s(g);" % unlock_fn(shape, mode))
                L.append("vcheck!(!w().held_any(), M_HELD_AT_KEY_BACK);")
                L.append("drop(kb);")
        else:
            hdr, okp, poisp, errp = try_match(shape, api)
            L.append(hdr)
            body_ok = ["vreach!(1);"]
            if env == "q":
                body_ok.append("vcheck!(orc, M_TRY_VERDICT);")
            body_ok.append("vcheck!(%s, M_NOT_ALL_HELD);" % held_ok)
            if release == "drop":
                body_ok.append("drop(g);")
            else:
                body_ok += ["let kb = %s(g);" % unlock_fn(shape, mode), "vcheck!(!w().held_any(), M_HELD_AT_KEY_BACK);", "drop(kb);"]
            L.append("\t%s {" % okp)
            L += ["\t\t" + x for x in body_ok]
            L.append("\t}")
            if poisp:
                L.append("\t" + poisp)
                L += ["\t\t" + x for x in body_ok]
                L.append("\t}")
            L.append("\t%s {" % errp)
            L.append("\t\tvreach!(2);")
            if env == "q":
                L.append("\t\tvcheck!(!orc, M_TRY_VERDICT);")
            L.append("\t\tvcheck!(!w().held_any(), M_HELD_AFTER_ERR);")
            L.append("\t\tvcheck!(!w().held_any(), M_HELD_AT_KEY_BACK);")
            L.append("\t\tdrop(kb);")
            L.append("\t}")
            L.append("}")
    else:
        if keystyle == "owned":
            L.append("let k = key();")
            karg = "k"
        else:
            L.append("let mut k = key();")
            karg = "&mut k"
        L.append("w().api_begin();")
        clos = ("|_d| { w().closure_runs.set(w().closure_runs.get() + 1); "
                "vcheck!(%s, M_NOT_HELD_IN_SECTION); 7u8 }" % held_ok)
        if blocking:
            L.append("let r = coll.%s(%s, %s);" % (api, karg, clos))
            L.append("vreach!(1);")
            L.append("vcheck!(r == 7 && w().closure_runs.get() == 1, M_CLOSURE_COUNT);")
            L.append("vcheck!(!w().held_any(), M_HELD_AT_KEY_BACK);")
        else:
            L.append("match coll.%s(%s, %s) {" % (api, karg, clos))
            L.append("\tOk(r) => {")
            L.append("\t\tvreach!(1);")
            if env == "q":
                L.append("\t\tvcheck!(orc, M_TRY_VERDICT);")
            L.append("\t\tvcheck!(r == 7 && w().closure_runs.get() == 1, M_CLOSURE_COUNT);")
            L.append("\t}")
            L.append("\tErr(_kb) => {")
            L.append("\t\tvreach!(2);")
            if env == "q":
                L.append("\t\tvcheck!(!orc, M_TRY_VERDICT);")
            L.append("\t\tvcheck!(w().closure_runs.get() == 0, M_CLOSURE_COUNT);")
            L.append("\t}")
            L.append("}")
            L.append("vcheck!(!w().held_any(), M_HELD_AT_KEY_BACK);")
        if keystyle == "lent":
            # the lent key must still be usable: nothing else may hold the thread's key
            L.append("vcheck!(ThreadKey::get().is_none(), M_KEY_MODEL);")
            L.append("drop(k);")
    if not blocking:
        L.append("vcheck!(w().blocking_ops.get() == 0 && w().wait_events.get() == 0, M_BLOCKING_IN_TRY);")
        if env == "q":
            L.append("vcheck!(w().snapshot() == snap0, M_STATE_CHANGED);")
    if shape.kind == "retry" or shape.name.startswith("n_rt"):
        L.append("vcheck!(w().hold_and_wait.get() == 0, M_HOLD_AND_WAIT);")
    L += end_checks()
    L.append("vreach!(3);")
    nm = name or "%s__%s__%s%s%s" % (shape.name, api, env, "_lent" if keystyle == "lent" else "", "_unlock" if release == "unlock" else "")
    return nm, fn_wrap(nm, L)


def gen_acq(tier, envs=("q", "a"), shapes=None, only_try=False, only_blocking=False, kinds=None, budget=None):
    """-> (text, [entry names])"""
    out = [HEADER]
    names = []
    if budget is None:
        budget = 2 if tier == "quick" else 3
    for sh in (shapes or all_shapes(tier)):
        if kinds is not None and not kinds(sh):
            continue
        for (api, mode, blocking, style) in apis_for(sh):
            if only_try and blocking:
                continue
            if only_blocking and not blocking:
                continue
            for env in envs:
                variants = [("owned", "drop")]
                if style == "guard":
                    variants.append(("owned", "unlock"))
                else:
                    variants.append(("lent", "drop"))
                for keystyle, release in variants:
                    nm, txt = acq_entry(sh, api, mode, blocking, style, env, keystyle, release, budget=budget)
                    names.append(nm)
                    out.append(txt)
    return "\n".join(out), names
