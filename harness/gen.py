"""Generator of harness source (Rust) from shapes x API flavours x property templates.

A *shape* describes how a lock / collection is built from the shared universe `u` (symbolic picks)
or from owned locks, which leaves it covers and how its guard exposes the data of each leaf."""
import itertools

HEADER = """use crate::verif_harness::prelude::*;
use crate::collection::{BoxedLockCollection, OwnedLockCollection, RefLockCollection, RetryingLockCollection};
use crate::lockable::{Lockable, RawLock};
use crate::poisonable::Poisonable;
use crate::{vcheck, vreach, ThreadKey};
use std::panic::{catch_unwind, AssertUnwindSafe};
"""

KANI_ATTR = ("#[cfg_attr(kani, kani::proof)]\n#[cfg_attr(kani, kani::unwind(%d))]\n"
             "#[cfg_attr(kani, kani::stub(crate::handle_unwind::handle_unwind, crate::verif_harness::env::hu_stub))]\n")


class Shape(object):
    def __init__(self, name, kind, setup, build, ctype, leaves, sharable, guard=None, rguard=None, pre=True, owned_ids=(),
                 nested_owned_mask="0"):
        self.name = name
        self.kind = kind  # single_m single_r boxed ref owned retry pois
        self.setup = setup  # list of rust statements (locks in scope)
        self.build = build  # list of statements ending with `let coll = ...;`
        self.ctype = ctype
        self.leaves = leaves  # list of (idexpr, 'M'|'R', prestmt or None)
        self.sharable = sharable
        self.guard = guard  # list of lvalue exprs (one per leaf) through a write guard `g`
        self.rguard = rguard  # same through a read guard `g`
        self.nested_owned_mask = nested_owned_mask

    def ids(self):
        return [l[0] for l in self.leaves]

    def n(self):
        return len(self.leaves)


FIXED_PICKS = [None]  # None: symbolic arrangement; int: arrangement drawn from this seed at generation time


def picks(kinds):
    """distinct picks from the universe for a member string like 'MRM' -> (stmts, names).
    Symbolic by default; with FIXED_PICKS[0] set, one concrete arrangement per member string."""
    st = []
    names = []
    per = {"M": [], "R": []}
    fixed = None
    if FIXED_PICKS[0] is not None:
        import random
        rng = random.Random("%s/%s" % (FIXED_PICKS[0], kinds))
        perm = {"M": rng.sample(range(3), 3), "R": rng.sample(range(3), 3)}
        if FIXED_PICKS[0] == 0:
            perm = {"M": [2, 0, 1], "R": [1, 0, 2]}
        fixed = perm
    cnt = {"M": 0, "R": 0}
    for i, k in enumerate(kinds):
        v = "i%d" % i
        if fixed is not None:
            st.append("let %s: u8 = %d;" % (v, fixed[k][cnt[k]]))
            cnt[k] += 1
        else:
            st.append("let %s = any_below(T_IDX | %d, 3);" % (v, i))
            for o in per[k]:
                st.append("eng::assume(%s != %s);" % (v, o))
        per[k].append(v)
        nm = "l%d" % i
        st.append("let %s = pick_%s(&u, %s);" % (nm, k.lower(), v))
        names.append(nm)
    return st, names


def idexpr(name, k):
    return "id%s(%s)" % (k.lower(), name)


def pre_stmt(name, k, j):
    return "let p%d = pre_%s(%s);" % (j, k.lower(), name)


def tuple_of(xs):
    return "(" + ", ".join(xs) + ("," if len(xs) == 1 else "") + ")"


def ty_of(k, ref=True):
    return ("&" if ref else "") + k


def guard_paths(prefix, n):
    return ["*%s.%d" % (prefix, i) for i in range(n)]


def shape_single(k):
    st, names = picks(k)
    return Shape("s_" + k.lower(), "single_" + k.lower(), ["let u = universe();"] + st, ["let coll = %s;" % names[0]],
                 k, [(idexpr(names[0], k), k, names[0])], k == "R", guard=["*g"], rguard=["*g"])


def shape_refs(coll, kinds):
    """boxed / retry / ref collection over a tuple of references into the universe"""
    st, names = picks(kinds)
    tup = tuple_of(names)
    lty = tuple_of([ty_of(k) for k in kinds])
    leaves = [(idexpr(nm, k), k, nm) for nm, k in zip(names, kinds)]
    sharable = all(k == "R" for k in kinds)
    n = len(kinds)
    if coll == "boxed":
        build = ["let coll = match BoxedLockCollection::try_new(%s) { Some(c) => c, None => { vcheck!(false, M_DUP_VERDICT); return; } };" % tup]
        ctype = "BoxedLockCollection::<%s>" % lty
        nm = "bx"
    elif coll == "retry":
        build = ["let coll = match RetryingLockCollection::try_new(%s) { Some(c) => c, None => { vcheck!(false, M_DUP_VERDICT); return; } };" % tup]
        ctype = "RetryingLockCollection::<%s>" % lty
        nm = "rt"
    elif coll == "ref":
        build = ["let tup = %s;" % tup,
                 "let coll = match RefLockCollection::try_new(&tup) { Some(c) => c, None => { vcheck!(false, M_DUP_VERDICT); return; } };"]
        ctype = "RefLockCollection::<%s>" % lty
        nm = "rf"
    else:
        raise ValueError(coll)
    return Shape("%s_%s" % (nm, kinds.lower()), coll, ["let u = universe();"] + st, build, ctype, leaves, sharable,
                 guard=guard_paths("g", n), rguard=guard_paths("g", n))


def shape_owned(coll, kinds, base_id=6):
    """collection that owns its locks (ids base_id..)"""
    names = ["o%d" % i for i in range(len(kinds))]
    st = []
    leaves = []
    for i, (nm, k) in enumerate(zip(names, kinds)):
        st.append("let %s = new_%s(%d);" % (nm, k.lower(), base_id + i))
        leaves.append((str(base_id + i), k, "&" + nm))
    tup = tuple_of(names)
    lty = tuple_of([k for k in kinds])
    sharable = all(k == "R" for k in kinds)
    n = len(kinds)
    if coll == "owned":
        build = ["let coll = OwnedLockCollection::new(%s);" % tup]
        ctype = "OwnedLockCollection::<%s>" % lty
        nm = "ow"
    elif coll == "boxed":
        build = ["let coll = BoxedLockCollection::new(%s);" % tup]
        ctype = "BoxedLockCollection::<%s>" % lty
        nm = "bxo"
    elif coll == "retry":
        build = ["let coll = RetryingLockCollection::new(%s);" % tup]
        ctype = "RetryingLockCollection::<%s>" % lty
        nm = "rto"
    elif coll == "ref":
        build = ["let tup = %s;" % tup, "let coll = RefLockCollection::new(&tup);"]
        ctype = "RefLockCollection::<%s>" % lty
        nm = "rfo"
    else:
        raise ValueError(coll)
    return Shape("%s_%s" % (nm, kinds.lower()), coll, st, build, ctype, leaves, sharable,
                 guard=guard_paths("g", n), rguard=guard_paths("g", n))


def shape_refnew(fields):
    """RefLockCollection::new over owned data `(&mut u.x, ...)`: the unchecked-at-runtime constructor, with
    the members listed in a fixed non-ascending address order"""
    ids = {"m0": 0, "r0": 1, "m1": 2, "r1": 3, "m2": 4, "r2": 5}
    kinds = "".join(f[0].upper() for f in fields)
    leaves = [(str(ids[f]), f[0].upper(), "&u.%s" % f) for f in fields]
    tup = "(" + ", ".join("&mut u.%s" % f for f in fields) + ("," if len(fields) == 1 else "") + ")"
    lty = "(" + ", ".join("&mut %s" % f[0].upper() for f in fields) + ("," if len(fields) == 1 else "") + ")"
    n = len(fields)
    return Shape("rfn_%s" % "".join(fields), "ref", ["let mut u = universe();"],
                 ["let tup = %s;" % tup, "let coll = RefLockCollection::new(&tup);"], "RefLockCollection::<%s>" % lty, leaves,
                 all(k == "R" for k in kinds), guard=guard_paths("g", n), rguard=guard_paths("g", n))


def shape_empty(coll, container):
    """collections over no locks at all (size 0)"""
    data = "Vec::<M>::new()" if container == "vec" else "{ let e: [M; 0] = []; e }"
    lty = "Vec<M>" if container == "vec" else "[M; 0]"
    tag = "v" if container == "vec" else "a"
    if coll == "boxed":
        build, ctype, nm = ["let coll = BoxedLockCollection::new(%s);" % data], "BoxedLockCollection::<%s>" % lty, "bxe"
    elif coll == "retry":
        build, ctype, nm = ["let coll = RetryingLockCollection::new(%s);" % data], "RetryingLockCollection::<%s>" % lty, "rte"
    elif coll == "owned":
        build, ctype, nm = ["let coll = OwnedLockCollection::new(%s);" % data], "OwnedLockCollection::<%s>" % lty, "owe"
    else:
        build, ctype, nm = ["let tup = %s;" % data, "let coll = RefLockCollection::new(&tup);"], "RefLockCollection::<%s>" % lty, "rfe"
    return Shape("%s_%s0" % (nm, tag), coll, [], build, ctype, [], False, guard=[])


def shape_array(coll, n, container="array"):
    """boxed / retry collection over an array or Vec of mutex references"""
    st, names = picks("M" * n)
    leaves = [(idexpr(nm, "M"), "M", nm) for nm in names]
    if container == "array":
        data = "[" + ", ".join(names) + "]"
        lty = "[&M; %d]" % n
        tag = "a"
    else:
        data = "vec![" + ", ".join(names) + "]"
        lty = "Vec<&M>"
        tag = "v"
    if coll == "boxed":
        build = ["let coll = match BoxedLockCollection::try_new(%s) { Some(c) => c, None => { vcheck!(false, M_DUP_VERDICT); return; } };" % data]
        ctype = "BoxedLockCollection::<%s>" % lty
        nm = "bx" + tag
    else:
        build = ["let coll = match RetryingLockCollection::try_new(%s) { Some(c) => c, None => { vcheck!(false, M_DUP_VERDICT); return; } };" % data]
        ctype = "RetryingLockCollection::<%s>" % lty
        nm = "rt" + tag
    return Shape("%s_m%d" % (nm, n), coll, ["let u = universe();"] + st, build, ctype, leaves, False,
                 guard=["*g[%d]" % i for i in range(n)])


def shape_tuple7():
    """a 7-tuple: the six universe locks plus one separately allocated mutex"""
    st, names = picks("MRMRMR")
    st = st + ["let x6 = new_m(6);"]
    tup = "(" + ", ".join(names + ["&x6"]) + ")"
    lty = "(&M, &R, &M, &R, &M, &R, &M)"
    leaves = [(idexpr(nm, k), k, nm) for nm, k in zip(names, "MRMRMR")] + [("6", "M", "&x6")]
    build = ["let tup = %s;" % tup,
             "let coll = match RefLockCollection::try_new(&tup) { Some(c) => c, None => { vcheck!(false, M_DUP_VERDICT); return; } };"]
    return Shape("rf7_mrmrmrm", "ref", ["let u = universe();"] + st, build, "RefLockCollection::<%s>" % lty, leaves, False,
                 guard=guard_paths("g", 7), rguard=guard_paths("g", 7))


def shape_owned_container(coll, container, n, kind="M"):
    """collection owning an array / Vec / boxed slice of n locks (ids 6..)"""
    setup = ["let o%d = new_%s(%d);" % (i, kind.lower(), 6 + i) for i in range(n)]
    elems = ", ".join("o%d" % i for i in range(n))
    if container == "array":
        data, lty, tag = "[%s]" % elems, "[%s; %d]" % (kind, n), "a"
    elif container == "vec":
        data, lty, tag = "vec![%s]" % elems, "Vec<%s>" % kind, "v"
    else:
        data, lty, tag = "vec![%s].into_boxed_slice()" % elems, "Box<[%s]>" % kind, "b"
    leaves = [(str(6 + i), kind, "&o%d" % i) for i in range(n)]
    names = {"boxed": ("BoxedLockCollection", "bxo"), "retry": ("RetryingLockCollection", "rto"), "owned": ("OwnedLockCollection", "ow")}
    cname, nm = names[coll]
    return Shape("%s%s_%s%d" % (nm, tag, kind.lower(), n), coll, setup, ["let coll = %s::new(%s);" % (cname, data)], "%s::<%s>" % (cname, lty),
                 leaves, kind == "R", guard=["*g[%d]" % i for i in range(n)], rguard=["*g[%d]" % i for i in range(n)])


def shape_container_of_tuples(coll, container):
    """array / Vec whose elements are themselves multi-leaf (tuples of references): leaves = elements x arity"""
    st, names = picks("MRMR")
    elems = "(%s, %s), (%s, %s)" % tuple(names)
    if container == "vec":
        data, lty, tag = "vec![%s]" % elems, "Vec<(&M, &R)>", "vt"
    else:
        data, lty, tag = "[%s]" % elems, "[(&M, &R); 2]", "at"
    leaves = [(idexpr(nm, k), k, nm) for nm, k in zip(names, "MRMR")]
    cname, nm = {"boxed": ("BoxedLockCollection", "bx"), "retry": ("RetryingLockCollection", "rt"), "ref": ("RefLockCollection", "rf")}[coll]
    if coll == "ref":
        build = ["let tup = %s;" % data, "let coll = match RefLockCollection::try_new(&tup) { Some(c) => c, None => { vcheck!(false, M_DUP_VERDICT); return; } };"]
    else:
        build = ["let coll = match %s::try_new(%s) { Some(c) => c, None => { vcheck!(false, M_DUP_VERDICT); return; } };" % (cname, data)]
    return Shape("%s%s_mrmr" % (nm, tag), coll, ["let u = universe();"] + st, build, "%s::<%s>" % (cname, lty), leaves, False,
                 guard=["*g[0].0", "*g[0].1", "*g[1].0", "*g[1].1"])


def shape_pois(k):
    st = ["let o0 = new_%s(6);" % k.lower()]
    return Shape("po_" + k.lower(), "pois", st, ["let coll = Poisonable::new(o0);"], "Poisonable::<%s>" % k,
                 [("6", k, "&o0")], k == "R", guard=["*g"], rguard=["*g"])


def shape_nested(name):
    """hand-described nested shapes"""
    u = ["let u = universe();"]
    if name == "bx_bx":  # boxed((&boxed(a,b), c))
        st, nm = picks("MRM")
        build = ["let inner = match BoxedLockCollection::try_new((l0, l1)) { Some(c) => c, None => { vcheck!(false, M_DUP_VERDICT); return; } };",
                 "let coll = match BoxedLockCollection::try_new((&inner, l2)) { Some(c) => c, None => { vcheck!(false, M_DUP_VERDICT); return; } };"]
        return Shape("n_bx_bx", "boxed", u + st, build, "BoxedLockCollection::<(&BoxedLockCollection<(&M, &R)>, &M)>",
                     [(idexpr("l0", "M"), "M", "l0"), (idexpr("l1", "R"), "R", "l1"), (idexpr("l2", "M"), "M", "l2")], False,
                     guard=["*(g.0).0", "*(g.0).1", "*g.1"])
    if name == "bx_rt":  # boxed((&retry(a,b), c))
        st, nm = picks("MMR")
        build = ["let inner = match RetryingLockCollection::try_new((l0, l1)) { Some(c) => c, None => { vcheck!(false, M_DUP_VERDICT); return; } };",
                 "let coll = match BoxedLockCollection::try_new((&inner, l2)) { Some(c) => c, None => { vcheck!(false, M_DUP_VERDICT); return; } };"]
        return Shape("n_bx_rt", "boxed", u + st, build, "BoxedLockCollection::<(&RetryingLockCollection<(&M, &M)>, &R)>",
                     [(idexpr("l0", "M"), "M", "l0"), (idexpr("l1", "M"), "M", "l1"), (idexpr("l2", "R"), "R", "l2")], False,
                     guard=["*(g.0).0", "*(g.0).1", "*g.1"])
    if name == "rt_bx":  # retry((&boxed(a,b), c))
        st, nm = picks("RMM")
        build = ["let inner = match BoxedLockCollection::try_new((l0, l1)) { Some(c) => c, None => { vcheck!(false, M_DUP_VERDICT); return; } };",
                 "let coll = match RetryingLockCollection::try_new((&inner, l2)) { Some(c) => c, None => { vcheck!(false, M_DUP_VERDICT); return; } };"]
        return Shape("n_rt_bx", "retry", u + st, build, "RetryingLockCollection::<(&BoxedLockCollection<(&R, &M)>, &M)>",
                     [(idexpr("l0", "R"), "R", "l0"), (idexpr("l1", "M"), "M", "l1"), (idexpr("l2", "M"), "M", "l2")], False,
                     guard=["*(g.0).0", "*(g.0).1", "*g.1"])
    if name == "bx_ow":  # boxed((owned(m6, r7), &m))
        st, nm = picks("M")
        st = st + ["let o0 = new_m(6);", "let o1 = new_r(7);"]
        build = ["let inner = OwnedLockCollection::new((o0, o1));",
                 "let coll = match BoxedLockCollection::try_new((&inner, l0)) { Some(c) => c, None => { vcheck!(false, M_DUP_VERDICT); return; } };"]
        return Shape("n_bx_ow", "boxed", u + st, build, "BoxedLockCollection::<(&OwnedLockCollection<(M, R)>, &M)>",
                     [("6", "M", "&o0"), ("7", "R", "&o1"), (idexpr("l0", "M"), "M", "l0")], False,
                     guard=["*(g.0).0", "*(g.0).1", "*g.1"], nested_owned_mask="(bit(6) | bit(7))")
    if name == "rt_ow":  # retry((owned(r6, r7), &r))
        st, nm = picks("R")
        st = st + ["let o0 = new_r(6);", "let o1 = new_r(7);"]
        build = ["let inner = OwnedLockCollection::new((o0, o1));",
                 "let coll = match RetryingLockCollection::try_new((&inner, l0)) { Some(c) => c, None => { vcheck!(false, M_DUP_VERDICT); return; } };"]
        return Shape("n_rt_ow", "retry", u + st, build, "RetryingLockCollection::<(&OwnedLockCollection<(R, R)>, &R)>",
                     [("6", "R", "&o0"), ("7", "R", "&o1"), (idexpr("l0", "R"), "R", "l0")], True,
                     guard=["*(g.0).0", "*(g.0).1", "*g.1"], rguard=["*(g.0).0", "*(g.0).1", "*g.1"],
                     nested_owned_mask="(bit(6) | bit(7))")
    if name == "bx_po":  # boxed((&Poisonable<M>, &m))
        st, nm = picks("M")
        st = st + ["let o0 = new_m(6);", "let po = Poisonable::new(o0);"]
        build = ["let coll = match BoxedLockCollection::try_new((&po, l0)) { Some(c) => c, None => { vcheck!(false, M_DUP_VERDICT); return; } };"]
        return Shape("n_bx_po", "boxed", u + st, build, "BoxedLockCollection::<(&PM, &M)>",
                     [("6", "M", "raw6"), (idexpr("l0", "M"), "M", "l0")], False, guard=None)
    if name == "ow_ow":  # owned((owned(m6,m7), r8))
        st = ["let o0 = new_m(6);", "let o1 = new_m(7);", "let o2 = new_r(8);"]
        build = ["let coll = OwnedLockCollection::new((OwnedLockCollection::new((o0, o1)), o2));"]
        return Shape("n_ow_ow", "owned", st, build, "OwnedLockCollection::<(OwnedLockCollection<(M, M)>, R)>",
                     [("6", "M", "&o0"), ("7", "M", "&o1"), ("8", "R", "&o2")], False,
                     guard=["*(g.0).0", "*(g.0).1", "*g.1"])
    raise ValueError(name)


def shape_nested_refs(outer, inner, kinds):
    """outer((&inner(l0, l1), l2)) over references, any member kinds (all-R shapes are readable)"""
    st, nm = picks(kinds)
    cn = {"boxed": "BoxedLockCollection", "retry": "RetryingLockCollection"}
    tyk = lambda k: "&" + k
    build = ["let inner = match %s::try_new((l0, l1)) { Some(c) => c, None => { vcheck!(false, M_DUP_VERDICT); return; } };" % cn[inner],
             "let coll = match %s::try_new((&inner, l2)) { Some(c) => c, None => { vcheck!(false, M_DUP_VERDICT); return; } };" % cn[outer]]
    ctype = "%s::<(&%s<(%s, %s)>, %s)>" % (cn[outer], cn[inner], tyk(kinds[0]), tyk(kinds[1]), tyk(kinds[2]))
    leaves = [(idexpr("l%d" % i, k), k, "l%d" % i) for i, k in enumerate(kinds)]
    tag = {"boxed": "bx", "retry": "rt"}
    sharable = all(k == "R" for k in kinds)
    paths = ["*(g.0).0", "*(g.0).1", "*g.1"]
    return Shape("n_%s_%s_%s" % (tag[outer], tag[inner], kinds.lower()), outer, ["let u = universe();"] + st, build, ctype, leaves, sharable,
                 guard=paths, rguard=paths)


def shape_nested_ref_second(outer):
    """outer((l2, &RefLockCollection(l0, l1))): a ref collection nested at a non-first position"""
    st, nm = picks("MRM")
    cn = {"boxed": "BoxedLockCollection", "retry": "RetryingLockCollection"}
    build = ["let itup = (l0, l1);",
             "let inner = match RefLockCollection::try_new(&itup) { Some(c) => c, None => { vcheck!(false, M_DUP_VERDICT); return; } };",
             "let coll = match %s::try_new((l2, &inner)) { Some(c) => c, None => { vcheck!(false, M_DUP_VERDICT); return; } };" % cn[outer]]
    ctype = "%s::<(&M, &RefLockCollection<(&M, &R)>)>" % cn[outer]
    leaves = [(idexpr("l0", "M"), "M", "l0"), (idexpr("l1", "R"), "R", "l1"), (idexpr("l2", "M"), "M", "l2")]
    paths = ["*(g.1).0", "*(g.1).1", "*g.0"]
    return Shape("n_%s_rf2" % {"boxed": "bx", "retry": "rt"}[outer], outer, ["let u = universe();"] + st, build, ctype, leaves, False,
                 guard=paths, rguard=None)


def shape_pois_coll(inner):
    """Poisonable wrapped around a collection that owns two locks"""
    cn = {"boxed": "BoxedLockCollection", "retry": "RetryingLockCollection", "owned": "OwnedLockCollection"}[inner]
    st = ["let o0 = new_m(6);", "let o1 = new_r(7);"]
    return Shape("po_%s" % {"boxed": "bx", "retry": "rt", "owned": "ow"}[inner], "pois", st,
                 ["let coll = Poisonable::new(%s::new((o0, o1)));" % cn], "Poisonable::<%s<(M, R)>>" % cn,
                 [("6", "M", "&o0"), ("7", "R", "&o1")], False, guard=["*g.as_mut().0", "*g.as_mut().1"], rguard=None)


def owned_first(shape):
    """twin of a nested shape in which the owned unit is declared (allocated) before the universe, so that
    its address is below the universe locks' instead of above"""
    own = [l for l in shape.setup if l.startswith("let o")]
    rest = [l for l in shape.setup if not l.startswith("let o")]
    inner = [l for l in shape.build if l.startswith("let inner = OwnedLockCollection")]
    build = [l for l in shape.build if not l.startswith("let inner = OwnedLockCollection")]
    leaves = [(i, k, ("raw6" if r.startswith("&o") else r)) for (i, k, r) in shape.leaves]
    t = Shape(shape.name + "_of", shape.kind, own + inner + rest, build, shape.ctype, leaves, shape.sharable,
              guard=shape.guard, rguard=shape.rguard, nested_owned_mask=shape.nested_owned_mask)
    return t


def all_shapes(tier):
    sh = [shape_single("M"), shape_single("R")]
    for coll in ("boxed", "retry", "ref"):
        for kinds in (("MM", "MR", "RR", "MRM", "RRR") if tier == "quick" else ("M", "R", "MM", "MR", "RM", "RR", "MRM", "MMM", "RRR", "RMR", "MRMR", "RMRM")):
            sh.append(shape_refs(coll, kinds))
    for coll in ("owned", "boxed", "retry", "ref"):
        for kinds in (("MR", "RR") if tier == "quick" else ("M", "MR", "RR", "MRM", "RRR", "MRMR")):
            sh.append(shape_owned(coll, kinds))
    for coll in ("boxed", "retry", "owned", "ref"):
        sh.append(shape_empty(coll, "vec"))
        if tier != "quick":
            sh.append(shape_empty(coll, "array"))
    sh.append(shape_refnew(("m2", "r0", "m0")))
    sh.append(shape_refnew(("r2", "r0")))
    sh.append(shape_pois("M"))
    sh.append(shape_pois("R"))
    for n in ("bx_bx", "bx_rt", "rt_bx", "bx_ow", "rt_ow", "ow_ow"):
        sh.append(shape_nested(n))
    for n in ("bx_ow", "rt_ow"):
        sh.append(owned_first(shape_nested(n)))
    sh.append(shape_nested_refs("boxed", "retry", "RRR"))
    sh.append(shape_nested_refs("retry", "boxed", "RRR"))
    sh.append(shape_nested_ref_second("boxed"))
    sh.append(shape_nested_ref_second("retry"))
    sh.append(shape_pois_coll("boxed"))
    sh.append(shape_pois_coll("retry"))
    if tier != "quick":
        sh.append(shape_nested_refs("boxed", "boxed", "RRR"))
        sh.append(shape_nested_refs("retry", "retry", "MRM"))
        sh.append(shape_pois_coll("owned"))
    # containers: arrays, vectors, boxed slices (references into the universe, and owned)
    sh.append(shape_array("boxed", 3, "array"))
    sh.append(shape_array("retry", 3, "vec"))
    sh.append(shape_owned_container("boxed", "vec", 3))
    sh.append(shape_owned_container("owned", "array", 3))
    sh.append(shape_owned_container("retry", "slice", 3, "R"))
    # larger tuple arities (the Lockable impls are macro-generated up to 7): one concrete arrangement
    saved6 = FIXED_PICKS[0]
    if saved6 is None:
        FIXED_PICKS[0] = 0
    try:
        sh.append(shape_refs("boxed", "MRMRMR"))
        sh.append(shape_refs("retry", "RMRMR"))
        sh.append(shape_tuple7())
    finally:
        FIXED_PICKS[0] = saved6
    sh.append(shape_owned("owned", "MRMRM"))
    # four leaves: one concrete (seeded) arrangement in the quick tier, symbolic in the thorough tier
    saved = FIXED_PICKS[0]
    if tier == "quick" and saved is None:
        FIXED_PICKS[0] = 0
    try:
        sh.append(shape_container_of_tuples("boxed", "vec"))
        sh.append(shape_container_of_tuples("retry", "array"))
    finally:
        FIXED_PICKS[0] = saved
    if tier != "quick":
        sh.append(shape_array("retry", 3, "array"))
        sh.append(shape_array("boxed", 3, "vec"))
        sh.append(shape_owned_container("boxed", "slice", 4))
        sh.append(shape_owned_container("owned", "vec", 4, "R"))
        sh.append(shape_owned_container("retry", "array", 4))
        sh.append(shape_owned_container("boxed", "array", 2, "R"))
        sh.append(shape_container_of_tuples("ref", "vec"))
        sh.append(shape_container_of_tuples("boxed", "array"))
        sh.append(shape_container_of_tuples("retry", "vec"))
    return sh


# ------------------------------------------------------------------------------------------
# API flavours
# ------------------------------------------------------------------------------------------
def apis_for(shape):
    """(api name, mode 'w'|'r', blocking?, style 'guard'|'scoped')"""
    k = shape.kind
    out = []
    if k == "single_m":
        out = [("lock", "w", True, "guard"), ("try_lock", "w", False, "guard"),
               ("scoped_lock", "w", True, "scoped"), ("scoped_try_lock", "w", False, "scoped")]
    elif k == "single_r":
        out = [("write", "w", True, "guard"), ("try_write", "w", False, "guard"), ("read", "r", True, "guard"),
               ("try_read", "r", False, "guard"), ("scoped_write", "w", True, "scoped"),
               ("scoped_try_write", "w", False, "scoped"), ("scoped_read", "r", True, "scoped"),
               ("scoped_try_read", "r", False, "scoped")]
    else:
        out = [("lock", "w", True, "guard"), ("try_lock", "w", False, "guard"),
               ("scoped_lock", "w", True, "scoped"), ("scoped_try_lock", "w", False, "scoped")]
        if shape.sharable:
            out += [("read", "r", True, "guard"), ("try_read", "r", False, "guard"),
                    ("scoped_read", "r", True, "scoped"), ("scoped_try_read", "r", False, "scoped")]
    return out


def unlock_fn(shape, mode):
    k = shape.kind
    if k == "single_m":
        return "crate::mutex::Mutex::unlock"
    if k == "single_r":
        return "crate::rwlock::RwLock::unlock_write" if mode == "w" else "crate::rwlock::RwLock::unlock_read"
    return shape.ctype + ("::unlock" if mode == "w" else "::unlock_read")


def held_masks(shape, mode):
    ids = shape.ids()
    m = " | ".join("bit(%s)" % i for i in ids) or "0"
    if mode == "w":
        return "(%s)" % m, "0"
    # a read on a Mutex member is an exclusive hold
    xs = [i for (i, k, _) in shape.leaves if k == "M"]
    ss = [i for (i, k, _) in shape.leaves if k == "R"]
    return "(%s)" % (" | ".join("bit(%s)" % i for i in xs) or "0"), "(%s)" % (" | ".join("bit(%s)" % i for i in ss) or "0")


def oracle_try(shape, mode):
    ids = shape.ids()
    if not ids:
        return "true"
    if mode == "w":
        return "(" + " && ".join("w().is_free(%s)" % i for i in ids) + ")"
    parts = []
    for (i, k, _) in shape.leaves:
        parts.append(("w().no_writer(%s)" if k == "R" else "w().is_free(%s)") % i)
    return "(" + " && ".join(parts) + ")"


def pre_stmts(shape):
    out = []
    for j, (i, k, ref) in enumerate(shape.leaves):
        if ref in ("raw6", "&raw"):
            continue
        out.append("let _p%d = pre_%s(%s);" % (j, k.lower(), ref))
    return out


def indent(lines, n=1):
    return "\n".join("\t" * n + l for l in lines)


def fn_wrap(name, body_lines, unwind=8, kani=False):
    attr = (KANI_ATTR % unwind) if kani else ""
    return attr + "pub fn %s() {\n%s\n}\n" % (name, indent(body_lines))


def is_pois(shape):
    return shape.kind == "pois"


def unwrap_pois(shape, expr):
    """Poisonable's lock returns a PoisonResult<guard>"""
    if is_pois(shape):
        return "match %s { Ok(g) => g, Err(e) => e.into_inner() }" % expr
    return expr


def try_match(shape, api, key="k"):
    """rust match arms header for a guard-returning try api: yields (ok pattern -> g, err pattern -> key)"""
    if is_pois(shape):
        return ("match coll.%s(%s) {" % (api, key),
                "Ok(g) =>", "Err(crate::poisonable::TryLockPoisonableError::Poisoned(e)) => { let g = e.into_inner();",
                "Err(crate::poisonable::TryLockPoisonableError::WouldBlock(kb)) =>")
    return ("match coll.%s(%s) {" % (api, key), "Ok(g) =>", None, "Err(kb) =>")
