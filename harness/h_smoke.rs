use crate::verif_harness::env::*;
use crate::collection::{BoxedLockCollection, RetryingLockCollection, OwnedLockCollection, RefLockCollection};
use crate::ThreadKey;
use crate::{vcheck, vreach};

#[repr(C)]
pub struct U { pub m0: M, pub r0: R, pub m1: M, pub r1: R, pub m2: M }
pub fn universe() -> U { U { m0: new_m(0), r0: new_r(1), m1: new_m(2), r1: new_r(3), m2: new_m(4) } }
pub fn pick_m(u: &U, i: u8) -> &M { match i { 0 => &u.m0, 1 => &u.m1, _ => &u.m2 } }
pub fn pick_r(u: &U, i: u8) -> &R { match i { 0 => &u.r0, _ => &u.r1 } }

pub fn smoke_key() {
	w().reset(false);
	let k = ThreadKey::get();
	vcheck!(k.is_some(), M_KEY_MODEL);
	let k2 = ThreadKey::get();
	vcheck!(k2.is_none(), M_KEY_MODEL);
	drop(k);
	let k3 = ThreadKey::get();
	vcheck!(k3.is_some(), M_KEY_MODEL);
}

pub fn smoke_mutex() {
	w().reset(false);
	let m = new_m(0);
	let pre = pre_m(&m);
	let key = ThreadKey::get().unwrap();
	match m.try_lock(key) {
		Ok(mut g) => { vcheck!(pre == 0, M_TRY_VERDICT); *g = 5; drop(g); }
		Err(k) => { vcheck!(pre == 1, M_TRY_VERDICT); drop(k); }
	}
	vcheck!(!w().held_any(), M_HELD_AFTER_ERR);
}

pub fn smoke_boxed() {
	w().reset(false);
	let u = universe();
	let i0 = any_below(T_IDX | 0, 3);
	let i1 = any_below(T_IDX | 1, 2);
	let i2 = any_below(T_IDX | 2, 3);
	eng::assume(i0 != i2);
	let a = pick_m(&u, i0);
	let b = pick_r(&u, i1);
	let c = pick_m(&u, i2);
	let pa = pre_m(a);
	let pb = pre_r(b);
	let pc = pre_m(c);
	let s0 = (snap_m(a), snap_r(b), snap_m(c));
	let coll = match BoxedLockCollection::try_new((a, b, c)) {
		Some(c) => c,
		None => { vcheck!(false, M_DUP_VERDICT); return; }
	};
	let key = ThreadKey::get().unwrap();
	w().api_begin();
	match coll.try_lock(key) {
		Ok(g) => {
			vcheck!(pa == 0 && pb == 0 && pc == 0, M_TRY_VERDICT);
			vcheck!(raw_m(a).held_by_t0() && raw_r(b).held_x_by_t0() && raw_m(c).held_by_t0(), M_NOT_ALL_HELD);
			vreach!(1);
			drop(g);
		}
		Err(k) => {
			vcheck!(!(pa == 0 && pb == 0 && pc == 0), M_TRY_VERDICT);
			vreach!(2);
			drop(k);
		}
	}
	vcheck!((snap_m(a), snap_r(b), snap_m(c)) == s0, M_STATE_CHANGED);
	vcheck!(w().blocking_ops.get() == 0, M_BLOCKING_IN_TRY);
	vcheck!(w().bad_release.get() == 0, M_BAD_RELEASE);
	vcheck!(!w().held_any(), M_HELD_AFTER_ERR);
}
