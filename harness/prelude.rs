// Shared by all generated harness files: lock universe, symbolic arrangement, small helpers.
use crate::collection::{BoxedLockCollection, OwnedLockCollection, RefLockCollection, RetryingLockCollection};
use crate::poisonable::Poisonable;
pub use crate::verif_harness::env::*;
use crate::ThreadKey;

/// five shared locks at interleaved, fixed relative addresses; which of them a collection lists,
/// and in which order, is symbolic (pick_m / pick_r with symbolic indices)
#[repr(C)]
pub struct U {
	pub m0: M,
	pub r0: R,
	pub m1: M,
	pub r1: R,
	pub m2: M,
	pub r2: R,
}
pub fn universe() -> U {
	U { m0: new_m(0), r0: new_r(1), m1: new_m(2), r1: new_r(3), m2: new_m(4), r2: new_r(5) }
}
pub fn pick_m(u: &U, i: u8) -> &M {
	match i {
		0 => &u.m0,
		1 => &u.m1,
		_ => &u.m2,
	}
}
pub fn pick_r(u: &U, i: u8) -> &R {
	match i {
		0 => &u.r0,
		1 => &u.r1,
		_ => &u.r2,
	}
}
#[inline]
pub fn idm(m: &M) -> u8 {
	raw_m(m).id.get()
}
#[inline]
pub fn idr(r: &R) -> u8 {
	raw_r(r).id.get()
}
#[inline]
pub fn bit(id: u8) -> u32 {
	1u32 << id
}
/// key for the analysed thread
pub fn key() -> ThreadKey {
	match ThreadKey::get() {
		Some(k) => k,
		None => {
			eng::check_fn(false, M_KEY_MODEL);
			eng::fatal()
		}
	}
}
/// the key must be obtainable (nothing holds it) - then give it back
pub fn key_is_back() -> bool {
	match ThreadKey::get() {
		Some(k) => {
			drop(k);
			true
		}
		None => false,
	}
}
pub type PM = Poisonable<M>;
pub type PR = Poisonable<R>;

/// runs a closure when dropped (used to call APIs from a destructor that runs during unwinding)
pub struct OnDrop<F: FnMut()>(pub F);
impl<F: FnMut()> Drop for OnDrop<F> {
	fn drop(&mut self) {
		(self.0)()
	}
}
