// Shared verification environment: auditing raw locks, the world (owner table of the analysed
// thread T0, counters, logs), fault injection and the engine interface.
//
// This file is compiled unchanged by three engines, selected by cfg:
//   cfg(kani)          Kani/CBMC: nondeterminism = kani::any(), monitors = kani assertions
//   cfg(verif_mir)     mirsym: the `verif_*` extern functions are interpreted by the symbolic executor
//   cfg(verif_replay)  native replay: inputs come from a replay vector, events are printed
//
// It is copied into a scratch copy of the crate as `src/verif_harness/env.rs`; nothing here
// exists in /repo.
#![allow(dead_code, unused_variables, unused_imports, clippy::all, clippy::pedantic, clippy::nursery)]

use core::cell::Cell;

// ------------------------------------------------------------------------------------------
// monitor / event codes (keep in sync with vlib/codes.py, which parses this file)
// ------------------------------------------------------------------------------------------
pub const M_SELF_WAIT: u32 = 1; // blocking acquire of a lock T0 already holds
pub const M_BAD_RELEASE: u32 = 2; // release of a lock not held by T0 in that mode
pub const M_HOLD_AND_WAIT: u32 = 3; // wait event while holding (where forbidden)
pub const M_HELD_AT_API_BEGIN: u32 = 4; // first raw op of an API call with held != {}
pub const M_HELD_AT_KEY_BACK: u32 = 5; // key handed back while still holding
pub const M_NOT_ALL_HELD: u32 = 6; // after Ok: holdings != leaves in requested mode
pub const M_HELD_AFTER_ERR: u32 = 7; // after Err / at end: T0 still holds something
pub const M_BLOCKING_IN_TRY: u32 = 8; // blocking raw op issued by a try_* / non-acquiring call
pub const M_TRY_VERDICT: u32 = 9; // try verdict differs from oracle
pub const M_STATE_CHANGED: u32 = 10; // owner table differs from the snapshot
pub const M_KEY_MODEL: u32 = 11; // ThreadKey::get() disagrees with the reference model
pub const M_CLOSURE_COUNT: u32 = 12; // scoped closure ran != expected number of times
pub const M_DATA: u32 = 13; // data continuity / routing violated
pub const M_DUP_VERDICT: u32 = 14; // try_new verdict differs from oracle
pub const M_ORDER: u32 = 15; // acquisition order monitor
pub const M_NO_PANIC: u32 = 16; // expected unwind did not reach the caller / unexpected panic
pub const M_POISON_MODEL: u32 = 17; // poison flag / Ok-Err differs from model
pub const M_FAULTED_USABLE: u32 = 18; // faulted lock accepted a later acquisition
pub const M_DROP_COUNT: u32 = 19; // drop counter != 1
pub const M_LEAK: u32 = 20; // lock leaked after unwind
pub const M_NOT_COMPLETED: u32 = 21; // retry did not complete within budget
pub const M_NOT_HELD_IN_SECTION: u32 = 22; // user code ran while a leaf was not held
pub const M_OTHER: u32 = 23;

pub const E_OP: u32 = 100; // a = kind, b = lock id
pub const E_RES: u32 = 101; // a = kind, b = result (try) / 1
pub const E_WAIT: u32 = 102; // a = lock id | mode << 8 (0 exclusive, 1 shared), b = held_x | held_s << 16
pub const E_FAULT: u32 = 103; // a = kind, b = lock id
pub const E_USER_PANIC: u32 = 104; // a = site
pub const E_BAD_RELEASE: u32 = 105;
pub const E_MARK: u32 = 106; // harness marks: a = mark id, b = value
pub const E_SELF_WAIT: u32 = 107;

pub const K_LOCK_X: u32 = 0;
pub const K_TRY_X: u32 = 1;
pub const K_UNLOCK_X: u32 = 2;
pub const K_LOCK_S: u32 = 3;
pub const K_TRY_S: u32 = 4;
pub const K_UNLOCK_S: u32 = 5;

// tags of symbolic inputs (class << 8 | index); the class is what the replay file keys on
pub const T_PRE: u32 = 1 << 8; // pre-state of lock i
pub const T_HAVOC: u32 = 2 << 8; // environment answer at an op
pub const T_FAULT_AT: u32 = 3 << 8;
pub const T_USER_PANIC: u32 = 4 << 8;
pub const T_IDX: u32 = 5 << 8; // arrangement index
pub const T_OPCODE: u32 = 6 << 8;
pub const T_DATA: u32 = 7 << 8;
pub const T_MODE: u32 = 8 << 8;
pub const T_EVIL: u32 = 9 << 8;
pub const T_MISC: u32 = 10 << 8;

// ------------------------------------------------------------------------------------------
// engine interface
// ------------------------------------------------------------------------------------------
#[cfg(kani)]
pub mod eng {
	#[inline(always)]
	pub fn any_u8(_tag: u32) -> u8 {
		kani::any()
	}
	#[inline(always)]
	pub fn assume(c: bool) {
		kani::assume(c)
	}
	#[inline(always)]
	pub fn event(_code: u32, _a: u32, _b: u32) {}
	#[inline(always)]
	pub fn check_fn(c: bool, _code: u32) {
		assert!(c, "verif monitor");
	}
	pub fn fatal() -> ! {
		kani::assume(false);
		loop {}
	}
	pub fn inject_panic() -> ! {
		// panics do not unwind under Kani; fault injection is not used there
		kani::assume(false);
		loop {}
	}
	pub fn on_thread(_t: u32, _f: fn()) {
		// no second thread under Kani
	}
	pub fn debug_fmt<T: core::fmt::Debug + ?Sized>(_x: &T) -> bool {
		true
	}
}

#[cfg(verif_mir)]
pub mod eng {
	extern "Rust" {
		fn verif_on_thread(t: u32, f: fn());
		fn verif_formatter() -> *mut core::fmt::Formatter<'static>;
		fn verif_any_u8(tag: u32) -> u8;
		fn verif_assume(c: bool);
		fn verif_check(c: bool, code: u32);
		fn verif_event(code: u32, a: u32, b: u32);
		fn verif_fatal() -> !;
		fn verif_panic() -> !;
	}
	pub fn any_u8(tag: u32) -> u8 {
		unsafe { verif_any_u8(tag) }
	}
	pub fn assume(c: bool) {
		unsafe { verif_assume(c) }
	}
	pub fn event(code: u32, a: u32, b: u32) {
		unsafe { verif_event(code, a, b) }
	}
	pub fn check_fn(c: bool, code: u32) {
		unsafe { verif_check(c, code) }
	}
	pub fn fatal() -> ! {
		unsafe { verif_fatal() }
	}
	pub fn inject_panic() -> ! {
		unsafe { verif_panic() }
	}
	/// runs f to completion on another modelled thread (own thread-locals)
	pub fn on_thread(t: u32, f: fn()) {
		unsafe { verif_on_thread(t, f) }
	}
	/// Debug-formats x into a discarding sink (core::fmt's builders are summarised by the engine)
	pub fn debug_fmt<T: core::fmt::Debug + ?Sized>(x: &T) -> bool {
		let f = unsafe { &mut *verif_formatter() };
		core::fmt::Debug::fmt(x, f).is_ok()
	}
}

#[cfg(verif_replay)]
pub mod eng {
	use std::sync::Mutex;
	pub struct Replay {
		pub inputs: Vec<(u32, u8)>,
		pub cursor: usize,
	}
	pub static REPLAY: Mutex<Replay> = Mutex::new(Replay { inputs: Vec::new(), cursor: 0 });
	fn st() -> std::sync::MutexGuard<'static, Replay> {
		match REPLAY.lock() {
			Ok(g) => g,
			Err(p) => p.into_inner(),
		}
	}
	// everything is printed eagerly (stdout is line buffered) so that an abort keeps the trace
	pub fn any_u8(tag: u32) -> u8 {
		if mt::on() {
			return mt::next_input(tag);
		}
		let mut r = st();
		let c = r.cursor;
		r.cursor = c + 1;
		if c < r.inputs.len() {
			let (t, v) = r.inputs[c];
			if t != tag {
				println!("DIVERGED input#{} expected-tag={} got-tag={}", c, t, tag);
			}
			v
		} else {
			println!("DIVERGED input#{} exhausted tag={}", c, tag);
			0
		}
	}
	pub fn assume(c: bool) {
		if !c {
			println!("ASSUME-FAILED");
			finish_and_exit(3);
		}
	}
	pub fn event(code: u32, a: u32, b: u32) {
		println!("EV {} {} {}", code, a, b);
	}
	pub fn check_fn(c: bool, code: u32) {
		if !c && !mt::on() {
			println!("EV 999 {} 0", code);
			println!("VIOLATED {}", code);
		}
	}

	/// Multi-thread replay of a deadlock candidate: real OS threads run the real acquisition code, one at a
	/// time (baton passing); lock state is a global table indexed by lock id, so that every thread's own
	/// lock objects denote the shared locks.  A thread that cannot acquire parks; when every unfinished
	/// thread is parked and none can proceed, the state is a deadlock.
	pub mod mt {
		use std::cell::{Cell, RefCell};
		use std::sync::atomic::{AtomicBool, Ordering};
		use std::sync::{Condvar, Mutex, MutexGuard};
		pub static ON: AtomicBool = AtomicBool::new(false);
		pub struct St {
			pub xowner: [i32; 32],
			pub readers: [u32; 32],
			pub turn: i32,
			pub parked: [i32; 8],
			pub parked_shared: [bool; 8],
			pub at_breakpoint: [bool; 8],
			pub finished: [bool; 8],
			pub breakpoint: [i32; 8],
			pub bp_done: [bool; 8],
		}
		pub static ST: Mutex<St> = Mutex::new(St {
			xowner: [-1; 32],
			readers: [0; 32],
			turn: -1,
			parked: [-1; 8],
			parked_shared: [false; 8],
			at_breakpoint: [false; 8],
			finished: [false; 8],
			breakpoint: [-1; 8],
			bp_done: [false; 8],
		});
		pub static CV: Condvar = Condvar::new();
		thread_local! {
			pub static TID: Cell<i32> = Cell::new(-1);
			pub static INPUTS: RefCell<(Vec<(u32, u8)>, usize)> = RefCell::new((Vec::new(), 0));
		}
		pub fn on() -> bool {
			ON.load(Ordering::SeqCst)
		}
		fn lock_st() -> MutexGuard<'static, St> {
			match ST.lock() {
				Ok(g) => g,
				Err(p) => p.into_inner(),
			}
		}
		/// next recorded input with this tag (answers of the single-thread environment are skipped)
		pub fn next_input(tag: u32) -> u8 {
			INPUTS.with(|c| {
				let mut c = c.borrow_mut();
				while c.1 < c.0.len() {
					let (t, v) = c.0[c.1];
					c.1 += 1;
					if t == tag {
						return v;
					}
				}
				0
			})
		}
		fn can_take(st: &St, id: usize, shared: bool, tid: i32) -> bool {
			if shared {
				st.xowner[id] < 0
			} else {
				st.xowner[id] < 0 && (st.readers[id] & !(1u32 << tid)) == 0 && st.readers[id] == 0
			}
		}
		fn park(mut g: MutexGuard<'static, St>, tid: i32, id: i32, shared: bool, bp: bool) -> MutexGuard<'static, St> {
			g.parked[tid as usize] = id;
			g.parked_shared[tid as usize] = shared;
			g.at_breakpoint[tid as usize] = bp;
			g.turn = -1;
			CV.notify_all();
			while g.turn != tid {
				g = match CV.wait(g) {
					Ok(x) => x,
					Err(p) => p.into_inner(),
				};
			}
			g.parked[tid as usize] = -1;
			g.at_breakpoint[tid as usize] = false;
			g
		}
		pub fn acquire(id: u8, shared: bool) {
			let tid = TID.with(|t| t.get());
			let i = id as usize & 31;
			let mut g = lock_st();
			if g.breakpoint[tid as usize] == id as i32 && !g.bp_done[tid as usize] {
				g.bp_done[tid as usize] = true;
				g = park(g, tid, id as i32, shared, true);
			}
			loop {
				if can_take(&g, i, shared, tid) {
					if shared {
						g.readers[i] |= 1u32 << tid;
					} else {
						g.xowner[i] = tid;
					}
					println!("MT thread {} acquired {} {}", tid, id, if shared { "S" } else { "X" });
					return;
				}
				println!("MT thread {} blocks on {} {}", tid, id, if shared { "S" } else { "X" });
				g = park(g, tid, id as i32, shared, false);
			}
		}
		pub fn try_acquire(id: u8, shared: bool) -> bool {
			let tid = TID.with(|t| t.get());
			let i = id as usize & 31;
			let mut g = lock_st();
			if can_take(&g, i, shared, tid) {
				if shared {
					g.readers[i] |= 1u32 << tid;
				} else {
					g.xowner[i] = tid;
				}
				true
			} else {
				false
			}
		}
		pub fn release(id: u8, shared: bool) {
			let tid = TID.with(|t| t.get());
			let i = id as usize & 31;
			let mut g = lock_st();
			if shared {
				g.readers[i] &= !(1u32 << tid);
			} else if g.xowner[i] == tid {
				g.xowner[i] = -1;
			}
		}
		/// controller: returns true if the threads end in a deadlock
		pub fn run(specs: Vec<(fn(), Vec<(u32, u8)>, i32)>) -> bool {
			ON.store(true, Ordering::SeqCst);
			let n = specs.len();
			{
				let mut g = lock_st();
				for (t, s) in specs.iter().enumerate() {
					g.breakpoint[t] = s.2;
				}
			}
			for (t, (f, inputs, _bp)) in specs.into_iter().enumerate() {
				std::thread::spawn(move || {
					TID.with(|c| c.set(t as i32));
					INPUTS.with(|c| *c.borrow_mut() = (inputs, 0));
					{
						let mut g = lock_st();
						while g.turn != t as i32 {
							g = match CV.wait(g) {
								Ok(x) => x,
								Err(p) => p.into_inner(),
							};
						}
					}
					let r = std::panic::catch_unwind(f);
					std::mem::forget(r);
					let mut g = lock_st();
					g.finished[t] = true;
					println!("MT thread {} finished", t);
					g.turn = -1;
					CV.notify_all();
				});
			}
			let give = |t: usize| {
				let mut g = lock_st();
				g.turn = t as i32;
				CV.notify_all();
				while g.turn != -1 {
					g = match CV.wait(g) {
						Ok(x) => x,
						Err(p) => p.into_inner(),
					};
				}
			};
			// phase 1: every thread runs up to its breakpoint (or blocks / finishes earlier)
			for t in 0..n {
				give(t);
			}
			// phase 2: resume whoever can make progress
			let mut steps = 0;
			loop {
				steps += 1;
				let pick = {
					let g = lock_st();
					let mut p: i32 = -1;
					for t in 0..n {
						if g.finished[t] {
							continue;
						}
						let id = g.parked[t];
						if id < 0 {
							continue;
						}
						if g.at_breakpoint[t] || can_take(&g, id as usize & 31, g.parked_shared[t], t as i32) {
							p = t as i32;
							break;
						}
					}
					p
				};
				if pick < 0 || steps > 10000 {
					break;
				}
				give(pick as usize);
			}
			let g = lock_st();
			let mut all_done = true;
			for t in 0..n {
				if !g.finished[t] {
					all_done = false;
					println!("MT thread {} is blocked waiting for lock {} ({})", t, g.parked[t], if g.parked_shared[t] { "shared" } else { "exclusive" });
				}
			}
			!all_done
		}
	}
	pub fn dump() {
		let r = st();
		println!("INPUTS-USED {} OF {}", r.cursor, r.inputs.len());
	}
	pub fn finish_and_exit(code: i32) -> ! {
		dump();
		println!("OUTCOME exit{}", code);
		std::process::exit(code)
	}
	pub fn fatal() -> ! {
		println!("OUTCOME fatal");
		dump();
		std::process::exit(4)
	}
	pub fn inject_panic() -> ! {
		// resume_unwind skips the panic hook
		std::panic::resume_unwind(Box::new("verif injected panic"))
	}
	pub struct Sink(pub u32);
	impl core::fmt::Write for Sink {
		fn write_str(&mut self, s: &str) -> core::fmt::Result {
			self.0 = self.0.wrapping_add(s.len() as u32);
			Ok(())
		}
	}
	pub fn debug_fmt<T: core::fmt::Debug + ?Sized>(x: &T) -> bool {
		use core::fmt::Write;
		let mut s = Sink(0);
		write!(s, "{:?}", x).is_ok()
	}
	/// runs f to completion on a real second thread
	pub fn on_thread(_t: u32, f: fn()) {
		let r = std::thread::spawn(f).join();
		if r.is_err() {
			println!("EV 998 0 0");
		}
	}
}

#[macro_export]
macro_rules! vcheck {
	($c:expr, $code:expr) => {{
		#[cfg(kani)]
		{
			let c__: bool = $c;
			assert!(c__, stringify!($code));
		}
		#[cfg(not(kani))]
		{
			$crate::verif_harness::env::eng::check_fn($c, $code);
		}
	}};
}

#[macro_export]
macro_rules! vreach {
	($code:expr) => {{
		#[cfg(kani)]
		{
			kani::cover!(true, "VREACH");
		}
		#[cfg(not(kani))]
		{
			$crate::verif_harness::env::eng::event($crate::verif_harness::env::E_MARK, 9000 + $code, 0);
		}
	}};
}

pub fn any_u8(tag: u32) -> u8 {
	eng::any_u8(tag)
}
pub fn any_bool(tag: u32) -> bool {
	let v = eng::any_u8(tag);
	eng::assume(v <= 1);
	v == 1
}
/// symbolic value in 0..n
pub fn any_below(tag: u32, n: u8) -> u8 {
	let v = eng::any_u8(tag);
	eng::assume(v < n);
	v
}

// ------------------------------------------------------------------------------------------
// the world: T0's view
// ------------------------------------------------------------------------------------------
pub const NO_FAULT: u32 = u32::MAX;
pub const NOID: u8 = 0xff;
pub const LOG_CAP: usize = 24;
pub const TAB_CAP: usize = 12;

pub const ST_FREE: u8 = 0;
pub const ST_T0: u8 = 1;
pub const ST_ENV: u8 = 2;

// persistent fault classes (bit mask over op kinds)
pub const EVIL_LOCK: u8 = 1; // blocking acquires panic
pub const EVIL_TRY: u8 = 2; // try acquires panic
pub const EVIL_UNLOCK: u8 = 4; // releases panic

pub struct World {
	pub adversarial: Cell<bool>,
	/// number of times the adversarial environment may still answer "held by someone else"
	pub interference_left: Cell<u32>,
	pub ops: Cell<u32>,
	pub fault_at: Cell<u32>,
	/// one-shot fault chosen lazily: at every raw operation a fresh symbolic bit decides whether it panics
	pub fault_armed: Cell<bool>,
	pub fault_fired: Cell<bool>,
	pub fault_kind: Cell<u32>,
	pub faulted_lock: Cell<u8>,
	pub evil_lock: [Cell<u8>; 2],
	pub evil_class: [Cell<u8>; 2],
	pub held_x: Cell<u32>,
	pub held_s: Cell<u32>,
	pub blocking_ops: Cell<u32>,
	pub wait_events: Cell<u32>,
	pub hold_and_wait: Cell<u32>,
	/// report a wait-while-holding at the event itself (retrying collections)
	pub check_hold_wait: Cell<bool>,
	/// optional probe evaluated at every release of lock `probe_lock`: bit 0 of `probe_last` = result at the last release
	/// optional environment action performed once while T0 waits for lock `wait_hook_lock` (e.g. the holder panics)
	pub wait_hook: Cell<Option<fn(usize)>>,
	pub wait_hook_arg: Cell<usize>,
	pub wait_hook_lock: Cell<u8>,
	pub probe_fn: Cell<Option<fn(usize) -> bool>>,
	pub probe_arg: Cell<usize>,
	pub probe_lock: Cell<u8>,
	pub probe_last: Cell<u8>,
	pub bad_release: Cell<u32>,
	pub self_wait: Cell<u32>,
	pub api_armed: Cell<bool>,
	pub held_at_api_begin: Cell<u32>,
	pub user_panic_armed: Cell<bool>,
	pub log_on: Cell<bool>,
	pub log_len: Cell<usize>,
	pub log: [Cell<u16>; LOG_CAP],
	/// locks (bit mask) whose hold may legitimately persist across a wait (owned units)
	pub wait_ok_mask: Cell<u32>,
	/// owner table by lock id: mutex: st; rwlock: x | s0 << 2 | se << 5
	pub tab: [Cell<u8>; TAB_CAP],
	/// protected-data shadow: last value written under an exclusive hold, per lock id
	pub closure_runs: Cell<u32>,
}

pub struct SyncWorld(pub World);
unsafe impl Sync for SyncWorld {}

#[allow(clippy::declare_interior_mutable_const)]
const C16: Cell<u16> = Cell::new(0);
#[allow(clippy::declare_interior_mutable_const)]
const C8: Cell<u8> = Cell::new(0);

pub static WORLD: SyncWorld = SyncWorld(World {
	adversarial: Cell::new(false),
	interference_left: Cell::new(u32::MAX),
	ops: Cell::new(0),
	fault_at: Cell::new(NO_FAULT),
	fault_armed: Cell::new(false),
	fault_fired: Cell::new(false),
	fault_kind: Cell::new(0),
	faulted_lock: Cell::new(NOID),
	evil_lock: [Cell::new(NOID), Cell::new(NOID)],
	evil_class: [Cell::new(0), Cell::new(0)],
	held_x: Cell::new(0),
	held_s: Cell::new(0),
	blocking_ops: Cell::new(0),
	wait_events: Cell::new(0),
	hold_and_wait: Cell::new(0),
	check_hold_wait: Cell::new(false),
	wait_hook: Cell::new(None),
	wait_hook_arg: Cell::new(0),
	wait_hook_lock: Cell::new(NOID),
	probe_fn: Cell::new(None),
	probe_arg: Cell::new(0),
	probe_lock: Cell::new(NOID),
	probe_last: Cell::new(2),
	bad_release: Cell::new(0),
	self_wait: Cell::new(0),
	api_armed: Cell::new(false),
	held_at_api_begin: Cell::new(0),
	user_panic_armed: Cell::new(false),
	log_on: Cell::new(false),
	log_len: Cell::new(0),
	log: [C16; LOG_CAP],
	wait_ok_mask: Cell::new(0),
	tab: [C8; TAB_CAP],
	closure_runs: Cell::new(0),
});

#[inline]
pub fn w() -> &'static World {
	&WORLD.0
}

impl World {
	pub fn reset(&self, adversarial: bool) {
		self.adversarial.set(adversarial);
		self.interference_left.set(u32::MAX);
		self.ops.set(0);
		self.fault_at.set(NO_FAULT);
		self.fault_armed.set(false);
		self.fault_fired.set(false);
		self.fault_kind.set(0);
		self.faulted_lock.set(NOID);
		self.evil_lock[0].set(NOID);
		self.evil_lock[1].set(NOID);
		self.evil_class[0].set(0);
		self.evil_class[1].set(0);
		self.held_x.set(0);
		self.held_s.set(0);
		self.blocking_ops.set(0);
		self.wait_events.set(0);
		self.hold_and_wait.set(0);
		self.check_hold_wait.set(false);
		self.wait_hook.set(None);
		self.wait_hook_arg.set(0);
		self.wait_hook_lock.set(NOID);
		self.probe_fn.set(None);
		self.probe_arg.set(0);
		self.probe_lock.set(NOID);
		self.probe_last.set(2);
		self.bad_release.set(0);
		self.self_wait.set(0);
		self.api_armed.set(false);
		self.held_at_api_begin.set(0);
		self.user_panic_armed.set(false);
		self.log_on.set(false);
		self.log_len.set(0);
		self.wait_ok_mask.set(0);
		self.closure_runs.set(0);
		let mut i = 0;
		while i < TAB_CAP {
			self.tab[i].set(0);
			i += 1;
		}
	}
	/// packed owner table
	pub fn snapshot(&self) -> u128 {
		let mut v: u128 = 0;
		let mut i = 0;
		while i < TAB_CAP {
			v |= (self.tab[i].get() as u128) << (8 * i);
			i += 1;
		}
		v
	}
	pub fn is_free(&self, id: u8) -> bool {
		self.tab[id as usize].get() == 0
	}
	pub fn no_writer(&self, id: u8) -> bool {
		self.tab[id as usize].get() & 3 == 0
	}
	#[inline]
	pub fn held_any(&self) -> bool {
		self.held_x.get() != 0 || self.held_s.get() != 0
	}
	/// marks the beginning of an API call: the next raw operation must find T0 holding nothing
	pub fn api_begin(&self) {
		self.api_armed.set(true);
	}
	fn push_log(&self, kind: u32, id: u8) {
		if self.log_on.get() {
			let n = self.log_len.get();
			if n < LOG_CAP {
				self.log[n].set(((kind as u16) << 8) | id as u16);
				self.log_len.set(n + 1);
			}
		}
	}
	/// common prologue of every raw operation: counting, API-begin monitor, fault injection
	fn pre_op(&self, kind: u32, id: u8) {
		let n = self.ops.get();
		self.ops.set(n + 1);
		eng::event(E_OP, kind, id as u32);
		if self.api_armed.get() {
			self.api_armed.set(false);
			if self.held_any() {
				self.held_at_api_begin.set(self.held_at_api_begin.get() + 1);
			}
		}
		#[cfg(not(kani))]
		{
			if n == self.fault_at.get()
				|| (self.fault_armed.get() && !self.fault_fired.get() && any_bool(T_FAULT_AT | (n & 0xff)))
			{
				self.fault_fired.set(true);
				self.faulted_lock.set(id);
				self.fault_kind.set(kind);
				eng::event(E_FAULT, kind, id as u32);
				eng::inject_panic();
			}
			let class = match kind {
				K_LOCK_X | K_LOCK_S => EVIL_LOCK,
				K_TRY_X | K_TRY_S => EVIL_TRY,
				_ => EVIL_UNLOCK,
			};
			if (self.evil_lock[0].get() == id && self.evil_class[0].get() & class != 0)
				|| (self.evil_lock[1].get() == id && self.evil_class[1].get() & class != 0)
			{
				self.fault_fired.set(true);
				self.fault_kind.set(kind);
				eng::event(E_FAULT, kind, id as u32);
				eng::inject_panic();
			}
		}
	}
	/// environment answer for a lock T0 does not hold: true = somebody else holds it now
	fn env_busy(&self, id: u8) -> bool {
		#[cfg(verif_replay)]
		if eng::mt::on() {
			// multi-thread replay: the recorded answers of this thread's example path decide (the world is shared)
			return any_bool(T_HAVOC | id as u32);
		}
		let left = self.interference_left.get();
		if left == 0 {
			return false;
		}
		let b = any_bool(T_HAVOC | id as u32);
		if b && left != u32::MAX {
			self.interference_left.set(left - 1);
		}
		b
	}
	fn note_wait(&self, id: u8, shared: bool) {
		self.wait_events.set(self.wait_events.get() + 1);
		eng::event(E_WAIT, id as u32 | ((shared as u32) << 8), self.held_x.get() | (self.held_s.get() << 16));
		if id == self.wait_hook_lock.get() {
			if let Some(f) = self.wait_hook.take() {
				f(self.wait_hook_arg.get());
			}
		}
		if (self.held_x.get() | self.held_s.get()) & !self.wait_ok_mask.get() != 0 {
			self.hold_and_wait.set(self.hold_and_wait.get() + 1);
			if self.check_hold_wait.get() {
				#[cfg(kani)]
				{
					assert!(false, "M_HOLD_AND_WAIT");
				}
				#[cfg(not(kani))]
				{
					eng::check_fn(false, M_HOLD_AND_WAIT);
				}
			}
		}
	}
	fn note_self_wait(&self, id: u8) -> ! {
		self.self_wait.set(self.self_wait.get() + 1);
		eng::event(E_SELF_WAIT, id as u32, 0);
		#[cfg(kani)]
		{
			assert!(false, "M_SELF_WAIT");
		}
		#[cfg(not(kani))]
		{
			eng::check_fn(false, M_SELF_WAIT);
		}
		eng::fatal()
	}
	/// called by the audit locks right before a release takes effect
	fn probe_at_release(&self, id: u8) {
		if id == self.probe_lock.get() {
			if let Some(f) = self.probe_fn.get() {
				self.probe_last.set(f(self.probe_arg.get()) as u8);
			}
		}
	}
	fn note_bad_release(&self, kind: u32, id: u8) {
		self.bad_release.set(self.bad_release.get() + 1);
		eng::event(E_BAD_RELEASE, kind, id as u32);
	}
}

/// user code inside a critical section: may panic if armed
pub fn user_point(site: u32) {
	if w().user_panic_armed.get() && any_bool(T_USER_PANIC | site) {
		eng::event(E_USER_PANIC, site, 0);
		eng::inject_panic();
	}
}

// ------------------------------------------------------------------------------------------
// auditing raw mutex
// ------------------------------------------------------------------------------------------
pub struct AuditMutex {
	pub id: Cell<u8>,
	pub st: Cell<u8>,
}
unsafe impl Sync for AuditMutex {}
unsafe impl Send for AuditMutex {}

impl AuditMutex {
	#[inline]
	pub fn sync(&self) {
		let id = self.id.get() as usize;
		if id < TAB_CAP {
			w().tab[id].set(self.st.get());
		}
	}
	#[inline]
	fn bit(&self) -> u32 {
		1u32 << (self.id.get() as u32 & 31)
	}
	/// adversarial environment: a lock T0 does not hold may be in any state
	fn havoc(&self) {
		let w = w();
		if w.adversarial.get() && self.st.get() != ST_T0 {
			self.st.set(if w.env_busy(self.id.get()) { ST_ENV } else { ST_FREE });
		}
	}
	pub fn held_by_t0(&self) -> bool {
		self.st.get() == ST_T0
	}
}

unsafe impl lock_api::RawMutex for AuditMutex {
	#[allow(clippy::declare_interior_mutable_const)]
	const INIT: Self = AuditMutex { id: Cell::new(NOID), st: Cell::new(ST_FREE) };
	type GuardMarker = lock_api::GuardSend;

	fn lock(&self) {
		let w = w();
		let id = self.id.get();
		w.pre_op(K_LOCK_X, id);
		w.blocking_ops.set(w.blocking_ops.get() + 1);
		self.havoc();
		match self.st.get() {
			ST_T0 => w.note_self_wait(id),
			ST_ENV => w.note_wait(id, false), // the holder releases eventually (premise), then granted
			_ => {}
		}
		#[cfg(verif_replay)]
		if eng::mt::on() {
			eng::mt::acquire(id, false);
		}
		self.st.set(ST_T0);
		w.held_x.set(w.held_x.get() | self.bit());
		w.push_log(K_LOCK_X, id);
		self.sync();
		eng::event(E_RES, K_LOCK_X, 1);
	}

	fn try_lock(&self) -> bool {
		let w = w();
		let id = self.id.get();
		w.pre_op(K_TRY_X, id);
		self.havoc();
		#[allow(unused_mut)]
		let mut ok = self.st.get() == ST_FREE;
		#[cfg(verif_replay)]
		if ok && eng::mt::on() {
			ok = eng::mt::try_acquire(id, false);
		}
		if ok {
			self.st.set(ST_T0);
			w.held_x.set(w.held_x.get() | self.bit());
			w.push_log(K_TRY_X, id);
		}
		self.sync();
		eng::event(E_RES, K_TRY_X, ok as u32);
		ok
	}

	unsafe fn unlock(&self) {
		let w = w();
		let id = self.id.get();
		w.pre_op(K_UNLOCK_X, id);
		w.probe_at_release(id);
		if self.st.get() != ST_T0 {
			w.note_bad_release(K_UNLOCK_X, id);
		} else {
			#[cfg(verif_replay)]
			if eng::mt::on() {
				eng::mt::release(id, false);
			}
			self.st.set(ST_FREE);
			w.held_x.set(w.held_x.get() & !self.bit());
			w.push_log(K_UNLOCK_X, id);
		}
		self.sync();
		eng::event(E_RES, K_UNLOCK_X, 1);
	}
}

// ------------------------------------------------------------------------------------------
// auditing raw rwlock
// ------------------------------------------------------------------------------------------
pub struct AuditRwLock {
	pub id: Cell<u8>,
	/// exclusive holder: ST_FREE / ST_T0 / ST_ENV
	pub x: Cell<u8>,
	/// shared holds of T0
	pub s0: Cell<u8>,
	/// shared holds of the environment (0/1)
	pub se: Cell<u8>,
}
unsafe impl Sync for AuditRwLock {}
unsafe impl Send for AuditRwLock {}

impl AuditRwLock {
	#[inline]
	pub fn sync(&self) {
		let id = self.id.get() as usize;
		if id < TAB_CAP {
			w().tab[id].set(self.x.get() | (self.s0.get() << 2) | (self.se.get() << 5));
		}
	}
	#[inline]
	fn bit(&self) -> u32 {
		1u32 << (self.id.get() as u32 & 31)
	}
	fn havoc(&self) {
		let w = w();
		if !w.adversarial.get() || self.x.get() == ST_T0 {
			return;
		}
		let id = self.id.get();
		if self.s0.get() > 0 {
			// T0 reads: others may read too, nobody writes
			self.se.set(if w.env_busy(id) { 1 } else { 0 });
			return;
		}
		if w.env_busy(id) {
			if any_bool(T_HAVOC | 0x80 | id as u32) {
				self.x.set(ST_ENV);
				self.se.set(0);
			} else {
				self.x.set(ST_FREE);
				self.se.set(1);
			}
		} else {
			self.x.set(ST_FREE);
			self.se.set(0);
		}
	}
	pub fn held_x_by_t0(&self) -> bool {
		self.x.get() == ST_T0
	}
	pub fn held_s_by_t0(&self) -> bool {
		self.s0.get() > 0
	}
}

unsafe impl lock_api::RawRwLock for AuditRwLock {
	#[allow(clippy::declare_interior_mutable_const)]
	const INIT: Self = AuditRwLock {
		id: Cell::new(NOID),
		x: Cell::new(ST_FREE),
		s0: Cell::new(0),
		se: Cell::new(0),
	};
	type GuardMarker = lock_api::GuardSend;

	fn lock_shared(&self) {
		let w = w();
		let id = self.id.get();
		w.pre_op(K_LOCK_S, id);
		w.blocking_ops.set(w.blocking_ops.get() + 1);
		self.havoc();
		if self.x.get() == ST_T0 || self.s0.get() > 0 {
			// a recursive shared acquisition can block behind a queued writer
			w.note_self_wait(id);
		}
		if self.x.get() == ST_ENV {
			w.note_wait(id, true);
			self.x.set(ST_FREE);
		}
		#[cfg(verif_replay)]
		if eng::mt::on() {
			eng::mt::acquire(id, true);
		}
		self.s0.set(self.s0.get() + 1);
		w.held_s.set(w.held_s.get() | self.bit());
		w.push_log(K_LOCK_S, id);
		self.sync();
		eng::event(E_RES, K_LOCK_S, 1);
	}

	fn try_lock_shared(&self) -> bool {
		let w = w();
		let id = self.id.get();
		w.pre_op(K_TRY_S, id);
		self.havoc();
		#[allow(unused_mut)]
		let mut ok = self.x.get() == ST_FREE;
		#[cfg(verif_replay)]
		if ok && eng::mt::on() {
			ok = eng::mt::try_acquire(id, true);
		}
		if ok {
			self.s0.set(self.s0.get() + 1);
			w.held_s.set(w.held_s.get() | self.bit());
			w.push_log(K_TRY_S, id);
		}
		self.sync();
		eng::event(E_RES, K_TRY_S, ok as u32);
		ok
	}

	unsafe fn unlock_shared(&self) {
		let w = w();
		let id = self.id.get();
		w.pre_op(K_UNLOCK_S, id);
		w.probe_at_release(id);
		if self.s0.get() == 0 {
			w.note_bad_release(K_UNLOCK_S, id);
		} else {
			#[cfg(verif_replay)]
			if eng::mt::on() {
				eng::mt::release(id, true);
			}
			self.s0.set(self.s0.get() - 1);
			if self.s0.get() == 0 {
				w.held_s.set(w.held_s.get() & !self.bit());
			}
			w.push_log(K_UNLOCK_S, id);
		}
		self.sync();
		eng::event(E_RES, K_UNLOCK_S, 1);
	}

	fn lock_exclusive(&self) {
		let w = w();
		let id = self.id.get();
		w.pre_op(K_LOCK_X, id);
		w.blocking_ops.set(w.blocking_ops.get() + 1);
		self.havoc();
		if self.x.get() == ST_T0 || self.s0.get() > 0 {
			w.note_self_wait(id);
		}
		if self.x.get() == ST_ENV || self.se.get() > 0 {
			w.note_wait(id, false);
			self.se.set(0);
		}
		#[cfg(verif_replay)]
		if eng::mt::on() {
			eng::mt::acquire(id, false);
		}
		self.x.set(ST_T0);
		w.held_x.set(w.held_x.get() | self.bit());
		w.push_log(K_LOCK_X, id);
		self.sync();
		eng::event(E_RES, K_LOCK_X, 1);
	}

	fn try_lock_exclusive(&self) -> bool {
		let w = w();
		let id = self.id.get();
		w.pre_op(K_TRY_X, id);
		self.havoc();
		#[allow(unused_mut)]
		let mut ok = self.x.get() == ST_FREE && self.s0.get() == 0 && self.se.get() == 0;
		#[cfg(verif_replay)]
		if ok && eng::mt::on() {
			ok = eng::mt::try_acquire(id, false);
		}
		if ok {
			self.x.set(ST_T0);
			w.held_x.set(w.held_x.get() | self.bit());
			w.push_log(K_TRY_X, id);
		}
		self.sync();
		eng::event(E_RES, K_TRY_X, ok as u32);
		ok
	}

	unsafe fn unlock_exclusive(&self) {
		let w = w();
		let id = self.id.get();
		w.pre_op(K_UNLOCK_X, id);
		w.probe_at_release(id);
		if self.x.get() != ST_T0 {
			w.note_bad_release(K_UNLOCK_X, id);
		} else {
			#[cfg(verif_replay)]
			if eng::mt::on() {
				eng::mt::release(id, false);
			}
			self.x.set(ST_FREE);
			w.held_x.set(w.held_x.get() & !self.bit());
			w.push_log(K_UNLOCK_X, id);
		}
		self.sync();
		eng::event(E_RES, K_UNLOCK_X, 1);
	}
}

// ------------------------------------------------------------------------------------------
// lock universe helpers
// ------------------------------------------------------------------------------------------
pub type M = crate::mutex::Mutex<u8, AuditMutex>;
pub type R = crate::rwlock::RwLock<u8, AuditRwLock>;

pub fn new_m(id: u8) -> M {
	let m: M = crate::mutex::Mutex::new(0);
	unsafe { m.raw() }.id.set(id);
	m
}
pub fn new_r(id: u8) -> R {
	let r: R = crate::rwlock::RwLock::new(0);
	raw_r(&r).id.set(id);
	r
}
#[inline]
pub fn raw_m(m: &M) -> &AuditMutex {
	unsafe { m.raw() }
}
#[inline]
pub fn raw_r(r: &R) -> &AuditRwLock {
	unsafe { r.raw() }
}

/// symbolic quiescent pre-state: mutex free or held by the environment
pub fn pre_m(m: &M) -> u8 {
	let id = raw_m(m).id.get();
	let v = any_below(T_PRE | id as u32, 2);
	raw_m(m).st.set(if v == 1 { ST_ENV } else { ST_FREE });
	raw_m(m).sync();
	v
}
/// symbolic quiescent pre-state: rwlock free (0), read-held (1) or write-held (2) by the environment
pub fn pre_r(r: &R) -> u8 {
	let id = raw_r(r).id.get();
	let v = any_below(T_PRE | id as u32, 3);
	let raw = raw_r(r);
	raw.x.set(if v == 2 { ST_ENV } else { ST_FREE });
	raw.se.set(if v == 1 { 1 } else { 0 });
	raw.sync();
	v
}
/// compact owner-table entry of one lock
pub fn snap_m(m: &M) -> u32 {
	raw_m(m).st.get() as u32
}
pub fn snap_r(r: &R) -> u32 {
	let raw = raw_r(r);
	raw.x.get() as u32 | ((raw.s0.get() as u32) << 4) | ((raw.se.get() as u32) << 8)
}

/// Kani replacement for `handle_unwind` (catch_unwind is unsupported there; with panic=abort
/// `catch_unwind(f)` is `Ok(f())`, which is exactly this)
#[cfg(kani)]
pub fn hu_stub<Ret, F: FnOnce() -> Ret, G: FnOnce()>(try_fn: F, _catch: G) -> Ret {
	try_fn()
}
