// native replay driver (copied to src/bin/verif_replay.rs of the scratch copy)
use happylock::verif_harness as vh;

fn main() {
	let args: Vec<String> = std::env::args().collect();
	let entry = args[1].clone();
	let mut inputs: Vec<(u32, u8)> = vec![];
	if args.len() > 2 && !args[2].is_empty() {
		for p in args[2].split(',') {
			let (t, v) = p.split_once(':').expect("tag:value");
			inputs.push((t.parse().expect("tag"), v.parse().expect("value")));
		}
	}
	{
		let mut r = vh::env::eng::REPLAY.lock().unwrap();
		r.inputs = inputs;
		r.cursor = 0;
	}
	std::panic::set_hook(Box::new(|_| {}));
	let f = match vh::find_entry(&entry) {
		Some(f) => f,
		None => {
			println!("NO-ENTRY {}", entry);
			std::process::exit(5);
		}
	};
	let r = std::panic::catch_unwind(f);
	println!("OUTCOME {}", if r.is_ok() { "return" } else { "unwound" });
	vh::env::eng::dump();
	std::mem::forget(r);
}
