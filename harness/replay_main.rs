// native replay driver (copied to src/bin/verif_replay.rs of the scratch copy)
use happylock::verif_harness as vh;
use std::alloc::{GlobalAlloc, Layout, System};
use std::sync::atomic::{AtomicIsize, Ordering};

// counts live heap allocations so that a leak found symbolically can be confirmed natively
struct Counting;
static LIVE: AtomicIsize = AtomicIsize::new(0);
unsafe impl GlobalAlloc for Counting {
	unsafe fn alloc(&self, l: Layout) -> *mut u8 {
		LIVE.fetch_add(1, Ordering::Relaxed);
		System.alloc(l)
	}
	unsafe fn dealloc(&self, p: *mut u8, l: Layout) {
		LIVE.fetch_sub(1, Ordering::Relaxed);
		System.dealloc(p, l)
	}
}
#[global_allocator]
static A: Counting = Counting;

fn main() {
	let args: Vec<String> = std::env::args().collect();
	if args[1] == "--mt" {
		// --mt entry|tag:val,..|breakpoint  entry|..|..   : multi-thread replay of a deadlock candidate
		let mut specs = vec![];
		for a in &args[2..] {
			let parts: Vec<&str> = a.split('|').collect();
			let f = vh::find_entry(parts[0]).expect("entry");
			let mut inputs: Vec<(u32, u8)> = vec![];
			if !parts[1].is_empty() {
				for p in parts[1].split(',') {
					let (t, v) = p.split_once(':').expect("tag:value");
					inputs.push((t.parse().expect("tag"), v.parse().expect("value")));
				}
			}
			specs.push((f, inputs, parts[2].parse::<i32>().expect("breakpoint")));
		}
		std::panic::set_hook(Box::new(|_| {}));
		let dead = vh::env::eng::mt::run(specs);
		println!("MT-OUTCOME {}", if dead { "deadlock" } else { "completed" });
		std::process::exit(0);
	}
	let entry = args[1].clone();
	let mut inputs: Vec<(u32, u8)> = vec![];
	if args.len() > 2 && !args[2].is_empty() {
		for p in args[2].split(',') {
			let (t, v) = p.split_once(':').expect("tag:value");
			inputs.push((t.parse().expect("tag"), v.parse().expect("value")));
		}
	}
	{
		let mut r = vh::env::eng::REPLAY.lock().unwrap();
		r.inputs = inputs;
		r.cursor = 0;
	}
	std::panic::set_hook(Box::new(|_| {}));
	let f = match vh::find_entry(&entry) {
		Some(f) => f,
		None => {
			println!("NO-ENTRY {}", entry);
			std::process::exit(5);
		}
	};
	println!("START");
	let before = LIVE.load(Ordering::Relaxed);
	let r = std::panic::catch_unwind(f);
	let after = LIVE.load(Ordering::Relaxed);
	println!("OUTCOME {}", if r.is_ok() { "return" } else { "unwound" });
	println!("LIVE-ALLOCS {}", after - before);
	vh::env::eng::dump();
	std::mem::forget(r);
}
