#!/bin/bash
# runs every claimed check (quick tier by default) and reports exit codes; evidence/*.json are rewritten
cd "$(dirname "$0")"
TIER=${1:-quick}
for id in $(python3 -c "import json;print(' '.join(c['property_id'] for c in json.load(open('MANIFEST.json'))['checks']))"); do
  s=$(date +%s)
  ./check $id --tier $TIER > /var/tmp/runall_$id.log 2>&1
  rc=$?
  echo "$id rc=$rc $(( $(date +%s) - s ))s $(grep -c '^VIOLATION' /var/tmp/runall_$id.log) violations $(grep -c '^KNOWN-FINDING' /var/tmp/runall_$id.log) known"
done
