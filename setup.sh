#!/bin/bash
# one-time setup after a fresh restore (offline): build the MIR dumper against the pre-installed nightly
set -e
cd "$(dirname "$0")/engines/mirdump"
CARGO_NET_OFFLINE=true cargo +nightly build --offline 2>&1 | tail -3
test -x target/debug/mirdump
echo "setup ok"
